#!/usr/bin/env python3
"""Mutation sweep: single-token mutants of hashicorp/raft source, each run against the checks that own the
mutated code. Works on scratch copies (/tmp/mutrepo, /tmp/verifmut) so that /repo and /verif stay untouched.

usage: mutate.py prepare
       mutate.py run <file.go> [--funcs f1,f2] [--checks C05,C07] [--max N] [--out results.jsonl]
       mutate.py summary <results.jsonl>
"""
import json, os, re, shutil, subprocess, sys, time

MUTREPO = "/tmp/mutrepo"
MUTVERIF = "/tmp/verifmut"
ENV = dict(os.environ, GOFLAGS="-mod=mod", GOPROXY="off", VERIF_DIR=MUTVERIF, VERIF_REPO=MUTREPO)

FILE_CHECKS = {
    "commitment.go": ["C05"],
    "configuration.go": ["C07"],
    "log_cache.go": ["C19"],
    "file_snapshot.go": ["C15"],
    "net_transport.go": ["C16"],
    "snapshot.go": ["C11", "C20", "C10"],
    "fsm.go": ["C02", "C08"],
    "replication.go": ["C04", "C12", "C09", "C03"],
}
FUNC_CHECKS = {
    "appendEntries": ["C04", "C03", "C02"],
    "requestVote": ["C06", "C01", "C03"],
    "requestPreVote": ["C06", "C14"],
    "installSnapshot": ["C02", "C11", "C12", "C03"],
    "electSelf": ["C01", "C06"],
    "preElectSelf": ["C14", "C06"],
    "runCandidate": ["C01", "C14", "C12"],
    "runFollower": ["C12", "C18", "C14"],
    "runLeader": ["C18", "C08", "C17"],
    "leaderLoop": ["C08", "C05", "C17", "C07"],
    "dispatchLogs": ["C08", "C05", "C03"],
    "processLogs": ["C02", "C08"],
    "processLog": ["C02", "C08"],
    "verifyLeader": ["C09"],
    "checkLeaderLease": ["C13"],
    "restoreUserSnapshot": ["C20"],
    "setState": ["C18"],
    "setLeader": ["C18"],
    "appendConfigurationEntry": ["C07", "C05"],
    "persistVote": ["C06"],
    "setCurrentTerm": ["C06"],
    "timeoutNow": ["C01", "C06"],
    "startStopReplication": ["C07", "C12"],
    "processConfigurationLogEntry": ["C07", "C10"],
    "setupLeaderState": ["C05"],
    "quorumSize": ["C01", "C09", "C13"],
    "NewRaft": ["C10"],
    "restoreSnapshot": ["C10"],
    "restoreFromCommittedLogs": ["C10"],
    "takeSnapshot": ["C11"],
    "compactLogs": ["C11"],
    "compactLogsWithTrailing": ["C11"],
}

SKIP_LINE = re.compile(r"^\s*(//|r\.logger\.|n\.logger\.|s\.logger\.|logger\.|metrics\.|labels|defer metrics|fmt\.|panic\(|r\.mainThreadSaturation|r\.observe\()")
OPS = [
    (r"<=", "<"), (r">=", ">"), (r"(?<![<>=!:])<(?![=<-])", "<="), (r"(?<![<>=!-])>(?![=>])", ">="),
    (r"==", "!="), (r"!=", "=="), (r"&&", "||"), (r"\|\|", "&&"),
    (r"\s\+ 1\b", ""), (r"\s- 1\b", ""), (r"\+1\b", ""), (r"-1\b", ""),
    (r"\bif !", "if "), (r"\btrue\b", "false"), (r"\bfalse\b", "true"),
]
CALL_STMT = re.compile(r"^\s*[a-z][A-Za-z0-9_.]*\.(set|Set|store|Store|delete|Delete|remove|Remove|respond|persist|compact|notify|close|Close|push|Push|Remove|recalculate|match|trigger|async)[A-Za-z0-9_]*\(.*\)\s*$")


def sh(cmd, **kw):
    return subprocess.run(cmd, shell=True, env=ENV, stdout=subprocess.PIPE, stderr=subprocess.STDOUT, text=True, **kw)


def prepare():
    for d in (MUTREPO, MUTVERIF):
        shutil.rmtree(d, ignore_errors=True)
    sh(f"rsync -a --exclude .git /repo/ {MUTREPO}/")
    sh(f"rsync -a --exclude .git --exclude .build --exclude replays --exclude evidence --exclude seeded --exclude mutation /verif/ {MUTVERIF}/")
    os.makedirs(f"{MUTVERIF}/evidence", exist_ok=True)
    gm = open(f"{MUTVERIF}/worker/go.mod").read().replace("=> /repo", f"=> {MUTREPO}")
    open(f"{MUTVERIF}/worker/go.mod", "w").write(gm)
    r = sh(f"cd {MUTVERIF} && go build -o bin/verif ./cmd/verif && ./bin/verif setup")
    print(r.stdout[-400:])


def func_spans(lines):
    spans, cur, start = [], None, 0
    for i, l in enumerate(lines):
        m = re.match(r"^func (\([^)]*\) )?([A-Za-z0-9_]+)", l)
        if m:
            cur, start = m.group(2), i
        if l.startswith("}") and cur:
            spans.append((cur, start, i))
            cur = None
    return spans


def mutants(path, funcs):
    src = open(path).read().split("\n")
    spans = func_spans(src)

    def fn_of(i):
        for name, a, b in spans:
            if a <= i <= b:
                return name
        return None

    in_block_comment = False
    for i, l in enumerate(src):
        if "/*" in l:
            in_block_comment = True
        if "*/" in l:
            in_block_comment = False
            continue
        fn = fn_of(i)
        if in_block_comment or fn is None or SKIP_LINE.match(l) or (funcs and fn not in funcs):
            continue
        code = l.split("//")[0]
        if '"' in code and ("Error(" in code or "Errorf(" in code or "logger" in code):
            continue
        for pat, rep in OPS:
            for m in re.finditer(pat, code):
                # do not touch string literals
                if code[:m.start()].count('"') % 2 == 1:
                    continue
                nl = code[:m.start()] + rep + code[m.end():] + l[len(code):]
                yield i, fn, l.strip(), nl.strip(), nl
        if CALL_STMT.match(code):
            yield i, fn, l.strip(), "(statement deleted)", re.match(r"^\s*", l).group(0) + "_ = 0"


def run(file, funcs, checks_override, maxn, out):
    path = f"{MUTREPO}/{file}"
    orig = open(f"/repo/{file}").read()
    open(path, "w").write(orig)
    n = 0
    done = set()
    if os.path.exists(out):
        for l in open(out):
            r = json.loads(l)
            done.add((r["file"], r["line"], r["mutant"]))
    for i, fn, before, after, newline in mutants(f"/repo/{file}", funcs):
        if (file, i + 1, after) in done:
            continue
        if maxn and n >= maxn:
            break
        checks = checks_override or FUNC_CHECKS.get(fn) or FILE_CHECKS.get(file)
        if not checks:
            continue
        lines = orig.split("\n")
        lines[i] = newline
        open(path, "w").write("\n".join(lines))
        rec = {"file": file, "line": i + 1, "func": fn, "original": before, "mutant": after, "checks": checks}
        b = sh(f"cd {MUTREPO} && go build . 2>&1 | head -5")
        if b.stdout.strip():
            rec["verdict"] = "does-not-compile"
        else:
            n += 1
            verdict, detail = "survived", ""
            t0 = time.time()
            for c in checks:
                try:
                    r = sh(f"cd {MUTVERIF} && timeout 900 ./bin/verif check {c}", timeout=1000)
                    rc, txt = r.returncode, r.stdout
                except subprocess.TimeoutExpired:
                    rc, txt = 124, ""
                if rc == 1:
                    sig = re.findall(r"signature: (.*)", txt)
                    verdict, detail = "killed", f"{c}: {sig[0] if sig else ''}"
                    break
                if rc != 0:
                    verdict, detail = "killed-internal", f"{c}: rc={rc} " + " ".join(re.findall(r"INTERNAL[^\n]*", txt)[:1])[:200]
                    break
            rec["verdict"], rec["detail"], rec["secs"] = verdict, detail, round(time.time() - t0, 1)
        with open(out, "a") as f:
            f.write(json.dumps(rec) + "\n")
        print(rec["verdict"], file, i + 1, fn, "|", before, "=>", after, "|", rec.get("detail", ""), flush=True)
    open(path, "w").write(orig)


def summary(out):
    rs = [json.loads(l) for l in open(out)]
    by = {}
    for r in rs:
        by.setdefault(r["verdict"], []).append(r)
    for k, v in by.items():
        print(k, len(v))
    for r in by.get("survived", []):
        print("SURVIVED", r["file"], r["line"], r["func"], "|", r["original"], "=>", r["mutant"], r["checks"])


if __name__ == "__main__":
    if sys.argv[1] == "prepare":
        prepare()
    elif sys.argv[1] == "summary":
        summary(sys.argv[2])
    else:
        a = sys.argv[2:]
        file = a[0]
        funcs, checks, maxn, out = None, None, 0, "/verif/mutation/results.jsonl"
        for k in range(1, len(a)):
            if a[k] == "--funcs":
                funcs = set(a[k + 1].split(","))
            if a[k] == "--checks":
                checks = a[k + 1].split(",")
            if a[k] == "--max":
                maxn = int(a[k + 1])
            if a[k] == "--out":
                out = a[k + 1]
        os.makedirs(os.path.dirname(out), exist_ok=True)
        run(file, funcs, checks, maxn, out)
