#!/bin/bash
# usage: resuite.sh Cxx  -- re-runs, with the seed applied, the tests that failed in the loaded full-suite run (count=3)
export GOFLAGS=-mod=mod GOPROXY=off
c=$1; wt=/tmp/s4-$c; log=/verif/seeded/seed4-$c/confirm.log
tests=$(grep -a -A30 'full suite' $log | grep -a '^--- FAIL' | awk '{print $3}' | grep -v 'TestFileSS_BadPerm\|TestRaft_HasExistingState\|TestRaft_ProtocolVersion_Upgrade_2_3\|TestRaft_FollowerRemovalNoElection\|TestRaft_ProtocolVersion_Upgrade_1_2' | sort -u | paste -sd'|')
[ -z "$tests" ] && { echo "== isolation re-run: nothing to re-run" >> $log; exit 0; }
cd $wt && git checkout -q -- . && git apply SEED/patch.diff || exit 1
echo "== isolation re-run WITH the change of the tests that failed in the loaded suite run ($tests), count=3, quiet machine" >> $log
go test -vet=off -count=3 -run "^($tests)\$" . 2>&1 | grep -a "^--- FAIL\|^ok\|^FAIL" | sort | uniq -c >> $log
git checkout -q -- .
