#!/bin/bash
# (helper of the fourth session: runs <scenario>+inj at bound 1 on one core and prints violations; used with xargs -P over all scenarios)
W=$(ls -t /verif/.build/*/worker | head -1)
s=$1
out=$(timeout 1200 $W run --scenario "$s+inj" --bound 1 2>&1 | grep -a "^execs\|^VIOL\|INTERNAL\|panic" | cut -c1-300)
echo "== $s+inj
$out"
