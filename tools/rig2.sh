#!/bin/bash
# usage: rig2.sh <patch.diff> <check>...   -- applies a patch to a scratch copy of /repo and runs checks from a scratch copy of /verif
# (leaves /repo and /verif untouched; used to try seeded changes while other runs read /repo)
export GOFLAGS=-mod=mod GOPROXY=off
R=/tmp/mutrepo${RIG:-2}; V=/tmp/verifmut${RIG:-2}
rsync -a --delete --exclude .git /repo/ $R/
rsync -a --delete --exclude .git --exclude .build --exclude replays --exclude evidence --exclude seeded --exclude mutation --exclude bin /verif/ $V/
mkdir -p $V/evidence
sed -i "s#=> /repo#=> $R#" $V/worker/go.mod
patch=$1; shift
if [ "$patch" != "none" ]; then (cd $R && patch -p1 -s < $patch) || { echo "patch failed"; exit 2; }; fi
cd $V && go build -o bin/verif ./cmd/verif || exit 2
export VERIF_DIR=$V VERIF_REPO=$R
./bin/verif setup > /dev/null 2>&1
for c in "$@"; do
  timeout 1800 ./bin/verif check $c 2>&1 | cut -c1-300 | grep -a "^VIOLATION\|signature\|scenario:\|quick:\|INTERNAL" | head -8
done
