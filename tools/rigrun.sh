#!/bin/bash
# usage: rigrun.sh <rigname> <patch|none> -- worker args...   (builds worker against patched copy and runs it)
export GOFLAGS=-mod=mod GOPROXY=off
RIG=$1; patch=$2; shift; shift; shift
R=/tmp/mutrepo$RIG; V=/tmp/verifmut$RIG
rsync -a --delete --exclude .git /repo/ $R/
rsync -a --delete --exclude .git --exclude .build --exclude replays --exclude evidence --exclude seeded --exclude mutation --exclude bin /verif/ $V/
mkdir -p $V/evidence
sed -i "s#=> /repo#=> $R#" $V/worker/go.mod
if [ "$patch" != "none" ]; then (cd $R && patch -p1 -s < $patch) || { echo "patch failed"; exit 2; }; fi
cd $V && go build -o bin/verif ./cmd/verif || exit 2
export VERIF_DIR=$V VERIF_REPO=$R
W=$(./bin/verif setup 2>&1 | tail -1 | awk '{print $2}')
$W "$@"
