#!/bin/bash
# runs every check's quick (or $1) tier sequentially and prints one summary line per check
tier=${1:-quick}
cd /verif
for c in C01 C02 C03 C04 C05 C06 C07 C08 C09 C10 C11 C12 C13 C14 C15 C16 C17 C18 C19 C20; do
  start=$(date +%s)
  ./bin/verif check $c --tier $tier > /tmp/runall_$c.log 2>&1
  rc=$?
  end=$(date +%s)
  echo "$c rc=$rc $((end-start))s $(grep -c '^KNOWN-FINDING' /tmp/runall_$c.log) known $(grep '^VIOLATION' /tmp/runall_$c.log | head -2 | tr '\n' ' ') $(grep 'INTERNAL' /tmp/runall_$c.log | head -1 | cut -c1-200)"
done
