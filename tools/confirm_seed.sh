#!/bin/bash
# usage: confirm_seed.sh <seed-id> <worktree>   -- re-confirms a seeded change in its scratch worktree
# writes /verif/seeded/<seed-id>/confirm.log ; copies patch.diff, the demonstration and README
id=$1; wt=$2
export GOFLAGS=-mod=mod GOPROXY=off
out=/verif/seeded/$id
mkdir -p $out
cp $wt/SEED/patch.diff $out/patch.diff
cp $wt/SEED/README.md $out/README.agent.md 2>/dev/null
for f in $wt/SEED/*_test.go $wt/SEED/*.go; do [ -f "$f" ] && cp $f $out/$(basename $f).txt; done
log=$out/confirm.log
: > $log
cd $wt || exit 2
git checkout -q -- . 2>/dev/null
demo=$(ls SEED/*_test.go 2>/dev/null | head -1)
[ -n "$demo" ] && cp $demo ./zz_seed_demo_test.go
tests=$(grep -o 'func Test[A-Za-z0-9_]*' ./zz_seed_demo_test.go | sed 's/func //' | paste -sd'|')
echo "demo tests: $tests" >> $log
echo "== demonstration WITHOUT the change (expect pass)" >> $log
go test -vet=off -count=2 -run "^($tests)\$" . 2>&1 | grep "^--- \|^ok\|^FAIL\|^panic" | sort | uniq -c >> $log
git apply SEED/patch.diff || { echo "patch does not apply" >> $log; exit 1; }
echo "== build with the change" >> $log
go build ./... >> $log 2>&1 && echo "build ok" >> $log
echo "== demonstration WITH the change (expect fail)" >> $log
go test -vet=off -count=2 -run "^($tests)\$" . 2>&1 | grep "^--- \|^ok\|^FAIL\|^panic" | sort | uniq -c >> $log
echo "== full suite WITH the change (known failures: TestFileSS_BadPerm always; TestRaft_HasExistingState, TestRaft_ProtocolVersion_Upgrade_2_3 flaky)" >> $log
rm -f ./zz_seed_demo_test.go
go test -vet=off -count=1 -timeout 25m . 2>&1 | grep "^--- FAIL\|^ok\|^FAIL\|^panic" >> $log
git checkout -q -- .
echo "== done" >> $log
