#!/usr/bin/env python3
"""Regenerates /verif/MANIFEST.json from the list of checks built so far."""
import json, subprocess, sys

props = [json.loads(l) for l in open('/verif/properties.jsonl')]
claimed = {
 # id: (category, engine, text, note, technique)
}
cluster_text = ("Exhaustive deviation-bounded exploration of the real implementation: real Raft instances (3-5 servers) run under a cooperative "
  "scheduler that owns goroutine scheduling, channel/select choice, time, randomness, network and storage; every departure from the healthy default "
  "schedule (message loss/duplication/reordering/late delivery, timer order, crash at quiescent points and before/after every store operation, store errors, "
  "a store write that hangs while the rest of the server runs, another ready case of a select, early client steps) is enumerated up to the stated bound and the "
  "property's oracle is evaluated on every execution. Further units: '<scenario>+inj' = one (thorough: two) unscripted public-API calls or isolations injected at every "
  "quiescent instant of the scenario; 'fe-*' = three servers with every select/lock/wait of every thread AND early message deliveries as branching points (two environment "
  "events in flight inside one server); 'stall-deposed3' = a leader whose main loop hangs in a store write while it is superseded.")
cluster_note = ("Bounded: <=5 servers, <=8 client calls, horizon of a few hundred environment events, deviation bound 1 (quick) / 2 (thorough); coarse mode does not "
  "interleave threads inside one server between two environment events except for select choices and the fe-* units (bounded preemptions); a unit that reaches its share of the time "
  "budget is reported as capped (exhaustive:false); harness stores/transport honour the interface contracts; data races out of scope.")
tech_cluster = "stateless model checking of the implementation: controlled cooperative scheduler + deviation-bounded DFS over environment decisions"
tech_enum = "explicit-state / exhaustive small-scope enumeration on the real component against a reference model"
for pid in ["C01","C02","C03","C08","C10"]:
    claimed[pid] = ("model_checking","vsched-dbdfs",cluster_text,cluster_note,tech_cluster)
for pid,what in [("C04","the real appendEntries handler over all small follower/leader logs, request shapes and store-failure pairs"),
                 ("C05","the real commitment type (explicit-state BFS to the fixpoint against the majority rule)"),
                 ("C07","the real nextConfiguration over every configuration of <=3 servers from 4 ids/addresses and every request"),
                 ("C11","the real compactLogsWithTrailing over every first/last/snapshot/trailing combination")]:
    claimed[pid] = ("model_checking","vsched-dbdfs+enum", cluster_text+" In addition: exhaustive enumeration of "+what+".", cluster_note, tech_cluster+"; plus "+tech_enum)
claimed["C06"] = ("model_checking","enum+vsched-dbdfs","Exhaustive enumeration on the real vote/pre-vote/append handlers: every small durable state x message sequence x fault placement (write error, crash before/after each stable-store write, restart from the durable image); plus the cluster explorations with the vote monitor on.","Bounded alphabets (see evidence assumptions); handlers driven synchronously on a Raft built without goroutines.",tech_enum+"; plus "+tech_cluster)
fine_text = ("Exhaustive exploration of thread interleavings of the real implementation: from the scripted race on, every select, lock and wait of every "
  "goroutine of the server and of the client threads is a scheduling decision of the explorer (preemption/choice bound 1 quick, 2 thorough); each public call races Shutdown() "
  "and is issued again after Shutdown completed; a caller is reported when nothing can ever wake it.")
claimed["C17"] = ("model_checking","vsched-dbdfs",fine_text,"2 voters, one call kind per scenario, buffered and unbuffered apply channel; bounded preemptions; plus coarse exploration of calls racing a step-down.","stateless model checking of the implementation: controlled scheduler with preemption-bounded DFS over every select/lock/wait")
claimed["C18"] = ("model_checking","vsched-dbdfs",cluster_text+" NotifyCh consumers are threads whose reads are granted by the explorer (every consumer speed within the bound).",cluster_note,tech_cluster)
claimed["C09"] = ("model_checking","vsched-dbdfs",cluster_text+" Scenarios: 2 voters + 1 non-voter with the leader cut off from the other voter; 3 voters with network deviations around the call; heartbeat acknowledgements withheld and delivered after the call while a new leader exists.",cluster_note,tech_cluster)
claimed["C20"] = ("model_checking","vsched-dbdfs",cluster_text+" Scenarios: snapshot index below / equal / above the last index, gap-tolerant and monotonic stores, an Apply in flight, a lagging follower, Restore during an uncommitted membership change.",cluster_note,tech_cluster)
timed_text = ("Exhaustive exploration in a timed regime: virtual clock, timers fire strictly in deadline order; the explorer chooses the instant of the fault among all quiescent "
  "instants with a stable leader (one execution per instant) and the timeout jitter; the bound on virtual time is checked on every execution.")
timed_note = "3-5 servers; HeartbeatTimeout=ElectionTimeout=LeaderLeaseTimeout=100ms; message delivery and thread steps take no virtual time; per-server jitter fixed and distinct (deviation: near maximum)."
claimed["C12"] = ("model_checking","vsched-dbdfs",cluster_text+" When the script of a fault scenario ends, the faults stop (partitions healed, crashed servers restarted, no further deviations) and the run continues in the timed regime; on every execution the cluster must elect, accept a write and catch every running member up within 10 election timeouts of virtual time, without re-sending the same snapshot three times.",cluster_note+" Quiet phase: zero message latency, pairwise distinct timeout jitter (two permutations).",tech_cluster+" (fault phase) followed by a deterministic timed continuation")
claimed["C13"] = ("model_checking","vsched-dbdfs",timed_text,timed_note,tech_cluster+" (timed regime)")
claimed["C14"] = ("model_checking","vsched-dbdfs",timed_text,timed_note,tech_cluster+" (timed regime)")
claimed["C15"] = ("fault_enumeration","crashfs","Crash-image enumeration on the real FileSnapshotStore: os is replaced by an in-memory file system that logs every operation; for every prefix of the log and every combination of surviving un-synced effects the image is opened by a fresh store and checked (List/Open/bytes/order/retain/durability), plus corrupted state and metadata files.","Durability model stated in the evidence assumptions (fsync(file) persists data + own entry, fsync(dir) persists earlier entry operations, per-directory/per-file ordering, atomic rename); histories of <=2 (3 thorough) snapshots.","exhaustive crash-point x surviving-effects enumeration (fault enumeration) on the implementation")
claimed["C16"] = ("model_checking","nettrans","The real NetworkTransport (two instances) under the cooperative scheduler over virtual connections: every message variant of every RPC type through pooled connections compared field by field on both ends; the connection cut after every byte offset of request and response followed by another call; unanswered calls (deadline); pipelines of depth 1-4 with MaxRPCsInFlight 2/3/10 under every interleaving of answers and deadlines.","Virtual ordered byte-stream connections with virtual-time deadlines; tcp_transport.go (real sockets) is outside the model; nil and empty slices identified.","stateless model checking of the implementation (controlled scheduler) + exhaustive fault-point enumeration")
claimed["C19"] = ("model_checking","enum","Explicit-state BFS to the fixpoint over the real LogCache: every reachable canonical state, every operation compared with the uncached backend.","Index range and capacities bounded; canonical state abstracts payloads to equality with the backend entry.",tech_enum)

checks=[]
for p in props:
    pid=p['id']
    if pid not in claimed: continue
    cat,eng,text,note,tech = claimed[pid]
    checks.append({
      "property_id":pid,
      "quick_cmd":"./bin/verif check %s --tier quick"%pid,
      "thorough_cmd":"./bin/verif check %s --tier thorough"%pid,
      "evidence_file":"/verif/evidence/%s.json"%pid,
      "replay_cmd_template":"./bin/verif replay {path}",
      "engine":eng,
      "level_claimed":{"category":cat,"text":text,"design_ref":"DESIGN.md section 5 (%s)"%pid},
      "level_note":note,
      "technique":tech})
na_reason = json.load(open('/verif/tools/not_applicable.json')) if len(sys.argv)>1 else {}
try:
    na_reason = json.load(open('/verif/tools/not_applicable.json'))
except Exception:
    na_reason = {}
m={"version":1,
 "setup_cmd":"cd /verif && GOFLAGS=-mod=mod GOPROXY=off go build -o bin/verif ./cmd/verif && ./bin/verif setup",
 "hooks":{"guard":"none: no source hooks; instrumentation is a build-time overlay generated from /repo's working tree","enable":"./bin/verif regenerates instrumented copies of package raft and builds the worker with go build -overlay; /repo is never modified","baseline_off_cmd":"cd /repo && go test -vet=off -count=1 -timeout 25m ./...","source_commits":[],"add_only":True},
 "engines":[
   {"name":"vsched-dbdfs","path":"/verif/worker (world.go, explore.go, monitors.go, scenarios.go) + /verif/shim + /verif/internal/instr","serves_properties":sorted(k for k,v in claimed.items() if 'vsched' in v[1]),"kind_free_text":"source instrumenter + cooperative scheduler + deviation-bounded DFS over the real package raft (stateless model checking of the implementation)"},
   {"name":"crashfs","path":"/verif/worker/enum_c15.go + /verif/shim/vos","serves_properties":["C15"],"kind_free_text":"in-memory file system replacing os in file_snapshot.go; crash-image enumeration (log prefix x surviving un-synced effects)"},
   {"name":"nettrans","path":"/verif/worker/enum_c16.go","serves_properties":["C16"],"kind_free_text":"NetworkTransport over scheduler-owned virtual connections with byte-offset cuts and virtual deadlines"},
   {"name":"enum","path":"/verif/worker/enum_*.go","serves_properties":sorted(k for k,v in claimed.items() if 'enum' in v[1]),"kind_free_text":"explicit-state BFS / exhaustive small-scope enumeration on real components against reference models"}],
 "checks":checks,
 "notes":"Known findings are listed in /verif/known_findings.json (committed, never written at run time). Exit codes: 0 held, 1 violation (VIOLATION line), 2 internal error.",
 "not_applicable":[{"property_id":p['id'],"reason":na_reason.get(p['id'],"check not built yet in this session (work in progress; will be claimed)")} for p in props if p['id'] not in claimed]}
json.dump(m,open('/verif/MANIFEST.json','w'),indent=1)
print("claimed:",sorted(claimed))
