#!/bin/bash
# usage: tracev.sh scenario prop sig-substring [grep-pattern]
W=$(ls -t /verif/.build/*/worker | head -1)
$W run --scenario "$1" --bound 1 --prop $2 2>&1 | grep -a -A1 "^VIOL.*$3" | head -2 | tail -1 > /tmp/c.txt
P=$(sed 's/.*\[//; s/\].*//; s/ /,/g' /tmp/c.txt)
echo "prefix=$P"
$W run --scenario "$1" --prop $2 --prefix $P 2>&1 | grep -av "^  thr" | grep -a "${4:-INJECT\|STEP\|VIOLATION\|RETURN\|IS \|^END\|StoreLogs\|DeleteRange\|snapshot durable\|RESTORE\|CRASH}" | cut -c1-260
