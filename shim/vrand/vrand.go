// Package vrand replaces math/rand in instrumented raft: the harness owns the answer.
package vrand

// Int63Fn is set by the harness; default 0 (no random extra on timeouts).
var Int63Fn = func() int64 { return 0 }

func Int63() int64 { return Int63Fn() }
