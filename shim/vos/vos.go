// Package vos replaces "os" in file_snapshot.go: an in-memory POSIX-like file
// system that logs every operation, so that a harness can materialise every
// crash image (prefix of the log x subset of not-yet-durable effects).
package vos

import (
	"errors"
	"io"
	"io/fs"
	"path/filepath"
	"sort"
	"strings"
	"time"
)

var (
	ErrNotExist = fs.ErrNotExist
	ErrExist    = fs.ErrExist
)

var Stderr io.Writer = io.Discard

func IsExist(err error) bool    { return errors.Is(err, fs.ErrExist) }
func IsNotExist(err error) bool { return errors.Is(err, fs.ErrNotExist) }

type FileMode = fs.FileMode

const ModePerm = fs.ModePerm

// OpKind enumerates logged operations.
type OpKind int

const (
	OpMkdir OpKind = iota
	OpCreate
	OpWrite
	OpFsync
	OpRename
	OpUnlink
	OpRmdir
	OpClose
	OpMark // harness marker (e.g. "Close returned")
)

func (k OpKind) String() string {
	return [...]string{"mkdir", "create", "write", "fsync", "rename", "unlink", "rmdir", "close", "mark"}[k]
}

type Op struct {
	Kind  OpKind
	Path  string // target path (new path for rename)
	Path2 string // old path for rename
	Data  []byte // write
	Ino   int    // identity of the file or directory the operation is about
	Dir   int    // identity of the parent directory (metadata operations)
	Name  string // entry name inside Dir
	Dir2  int    // rename: source directory
	Name2 string // rename: source name
	Trunc bool   // create on an existing file: truncation only, no new entry
	Note  string
}

type Node struct {
	IsDir    bool
	Data     []byte
	Children map[string]*Node
	Ino      int
}

// FS is the current (volatile + durable) view; Log is the complete operation history.
type FS struct {
	Root    *Node
	Log     []Op
	nextIno int
	// FailAt makes the n-th operation (1-based) return an error (0 = never).
	FailAt int
	nops   int
}

var Cur *FS

func NewFS() *FS {
	return &FS{Root: &Node{IsDir: true, Children: map[string]*Node{}, Ino: 1}, nextIno: 1}
}

func Reset() *FS { Cur = NewFS(); return Cur }

func split(p string) []string {
	p = filepath.Clean(p)
	var out []string
	for _, s := range strings.Split(p, "/") {
		if s != "" && s != "." {
			out = append(out, s)
		}
	}
	return out
}

func (f *FS) lookup(p string) (*Node, *Node, string) {
	parts := split(p)
	cur := f.Root
	var parent *Node
	name := ""
	for _, s := range parts {
		if cur == nil || !cur.IsDir {
			return nil, nil, s
		}
		parent = cur
		name = s
		cur = cur.Children[s]
	}
	return cur, parent, name
}

func (f *FS) log(op Op) { f.Log = append(f.Log, op) }

func (f *FS) fail() bool {
	f.nops++
	return f.FailAt > 0 && f.nops == f.FailAt
}

var errInjected = errors.New("vos: injected I/O error")

// Mark appends a harness marker to the log.
func Mark(note string) { Cur.log(Op{Kind: OpMark, Note: note}) }

func MkdirAll(p string, perm FileMode) error {
	f := Cur
	parts := split(p)
	cur := f.Root
	path := ""
	for _, s := range parts {
		path += "/" + s
		nx := cur.Children[s]
		if nx == nil {
			if f.fail() {
				return errInjected
			}
			f.nextIno++
			nx = &Node{IsDir: true, Children: map[string]*Node{}, Ino: f.nextIno}
			cur.Children[s] = nx
			f.log(Op{Kind: OpMkdir, Path: path, Ino: nx.Ino, Dir: cur.Ino, Name: s})
		} else if !nx.IsDir {
			return &fs.PathError{Op: "mkdir", Path: path, Err: errors.New("not a directory")}
		}
		cur = nx
	}
	return nil
}

type File struct {
	fs     *FS
	node   *Node
	path   string
	pos    int
	wr     bool
	closed bool
}

func Create(p string) (*File, error) {
	f := Cur
	n, parent, name := f.lookup(p)
	if parent == nil || !parent.IsDir {
		return nil, &fs.PathError{Op: "open", Path: p, Err: fs.ErrNotExist}
	}
	if n != nil && n.IsDir {
		return nil, &fs.PathError{Op: "open", Path: p, Err: errors.New("is a directory")}
	}
	if f.fail() {
		return nil, errInjected
	}
	trunc := false
	if n == nil {
		f.nextIno++
		n = &Node{Ino: f.nextIno}
		parent.Children[name] = n
	} else {
		n.Data = nil
		trunc = true
	}
	f.log(Op{Kind: OpCreate, Path: filepath.Clean(p), Ino: n.Ino, Dir: parent.Ino, Name: name, Trunc: trunc})
	return &File{fs: f, node: n, path: filepath.Clean(p), wr: true}, nil
}

func Open(p string) (*File, error) {
	f := Cur
	n, _, _ := f.lookup(p)
	if n == nil {
		return nil, &fs.PathError{Op: "open", Path: p, Err: fs.ErrNotExist}
	}
	return &File{fs: f, node: n, path: filepath.Clean(p)}, nil
}

func (h *File) Write(b []byte) (int, error) {
	if h.closed || !h.wr {
		return 0, errors.New("vos: write on closed or read-only file")
	}
	if h.fs.fail() {
		return 0, errInjected
	}
	h.node.Data = append(h.node.Data, b...)
	h.fs.log(Op{Kind: OpWrite, Path: h.path, Ino: h.node.Ino, Data: append([]byte(nil), b...)})
	return len(b), nil
}

func (h *File) Read(b []byte) (int, error) {
	if h.node.IsDir {
		return 0, errors.New("is a directory")
	}
	if h.pos >= len(h.node.Data) {
		return 0, io.EOF
	}
	n := copy(b, h.node.Data[h.pos:])
	h.pos += n
	return n, nil
}

func (h *File) Seek(off int64, whence int) (int64, error) {
	switch whence {
	case 0:
		h.pos = int(off)
	case 1:
		h.pos += int(off)
	case 2:
		h.pos = len(h.node.Data) + int(off)
	}
	return int64(h.pos), nil
}

func (h *File) Sync() error {
	if h.fs.fail() {
		return errInjected
	}
	h.fs.log(Op{Kind: OpFsync, Path: h.path, Ino: h.node.Ino})
	return nil
}

func (h *File) Close() error {
	if h.closed {
		return errors.New("vos: already closed")
	}
	h.closed = true
	return nil
}

type fileInfo struct {
	name string
	n    *Node
}

func (i fileInfo) Name() string       { return i.name }
func (i fileInfo) Size() int64        { return int64(len(i.n.Data)) }
func (i fileInfo) Mode() fs.FileMode  { return 0o644 }
func (i fileInfo) ModTime() time.Time { return time.Time{} }
func (i fileInfo) IsDir() bool        { return i.n.IsDir }
func (i fileInfo) Sys() any           { return nil }

func (h *File) Stat() (fs.FileInfo, error) { return fileInfo{filepath.Base(h.path), h.node}, nil }

func Stat(p string) (fs.FileInfo, error) {
	n, _, name := Cur.lookup(p)
	if n == nil {
		return nil, &fs.PathError{Op: "stat", Path: p, Err: fs.ErrNotExist}
	}
	return fileInfo{name, n}, nil
}

type dirEntry struct{ fileInfo }

func (d dirEntry) Type() fs.FileMode {
	if d.n.IsDir {
		return fs.ModeDir
	}
	return 0
}
func (d dirEntry) Info() (fs.FileInfo, error) { return d.fileInfo, nil }

type DirEntry = fs.DirEntry

func ReadDir(p string) ([]fs.DirEntry, error) {
	n, _, _ := Cur.lookup(p)
	if n == nil || !n.IsDir {
		return nil, &fs.PathError{Op: "open", Path: p, Err: fs.ErrNotExist}
	}
	var names []string
	for k := range n.Children {
		names = append(names, k)
	}
	sort.Strings(names)
	var out []fs.DirEntry
	for _, k := range names {
		out = append(out, dirEntry{fileInfo{k, n.Children[k]}})
	}
	return out, nil
}

func Remove(p string) error {
	f := Cur
	n, parent, name := f.lookup(p)
	if n == nil {
		return &fs.PathError{Op: "remove", Path: p, Err: fs.ErrNotExist}
	}
	if n.IsDir && len(n.Children) > 0 {
		return &fs.PathError{Op: "remove", Path: p, Err: errors.New("directory not empty")}
	}
	if f.fail() {
		return errInjected
	}
	delete(parent.Children, name)
	k := OpUnlink
	if n.IsDir {
		k = OpRmdir
	}
	f.log(Op{Kind: k, Path: filepath.Clean(p), Ino: n.Ino, Dir: parent.Ino, Name: name})
	return nil
}

func RemoveAll(p string) error {
	f := Cur
	n, _, _ := f.lookup(p)
	if n == nil {
		return nil
	}
	if n.IsDir {
		var names []string
		for k := range n.Children {
			names = append(names, k)
		}
		sort.Strings(names)
		for _, k := range names {
			if err := RemoveAll(filepath.Join(p, k)); err != nil {
				return err
			}
		}
	}
	return Remove(p)
}

func Rename(oldp, newp string) error {
	f := Cur
	n, op, oname := f.lookup(oldp)
	if n == nil {
		return &fs.PathError{Op: "rename", Path: oldp, Err: fs.ErrNotExist}
	}
	t, np, nname := f.lookup(newp)
	if np == nil || !np.IsDir {
		return &fs.PathError{Op: "rename", Path: newp, Err: fs.ErrNotExist}
	}
	if t != nil && t.IsDir && len(t.Children) > 0 {
		return &fs.PathError{Op: "rename", Path: newp, Err: errors.New("directory not empty")}
	}
	if f.fail() {
		return errInjected
	}
	delete(op.Children, oname)
	np.Children[nname] = n
	f.log(Op{Kind: OpRename, Path: filepath.Clean(newp), Path2: filepath.Clean(oldp), Ino: n.Ino, Dir: np.Ino, Name: nname, Dir2: op.Ino, Name2: oname})
	return nil
}

// FromRoot wraps a tree as a file system (crash images).
func FromRoot(root *Node) *FS {
	max := 0
	var walk func(n *Node)
	walk = func(n *Node) {
		if n.Ino > max {
			max = n.Ino
		}
		for _, c := range n.Children {
			walk(c)
		}
	}
	walk(root)
	return &FS{Root: root, nextIno: max + 1000}
}

// Lookup returns the node at path p or nil.
func (f *FS) Lookup(p string) *Node {
	n, _, _ := f.lookup(p)
	return n
}
