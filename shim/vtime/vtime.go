// Package vtime: virtual clock and timers owned by the scheduler/harness.
// Time and Duration are aliases of the real types so values flow to hclog/metrics.
package vtime

import (
	"reflect"
	"sort"
	"time"

	"github.com/hashicorp/raft/zzverif/vsched"
)

type (
	Time     = time.Time
	Duration = time.Duration
)

const (
	Nanosecond  = time.Nanosecond
	Microsecond = time.Microsecond
	Millisecond = time.Millisecond
	Second      = time.Second
	Minute      = time.Minute
	Hour        = time.Hour
)

var base = time.Unix(1_700_000_000, 0)

type VTimer struct {
	ID       int
	Deadline Duration
	Period   Duration
	Group    int
	Owner    string // creating thread name
	Site     string
	ch       chan Time
	fn       func()
	Fired    bool
	Stopped  bool
}

type Clock struct {
	Timers []*VTimer
	next   int
}

var C *Clock

func Reset() { C = &Clock{} }

func Now() Time             { return base.Add(vsched.G.Now) }
func Since(t Time) Duration { return Now().Sub(t) }
func Until(t Time) Duration { return t.Sub(Now()) }
func Unix(s, n int64) Time  { return time.Unix(s, n) }

// Elapsed returns virtual time since the start of the execution.
func Elapsed() Duration { return vsched.G.Now }

func newTimer(d, period Duration, fn func()) *VTimer {
	g := -1
	owner := ""
	if t := vsched.Cur(); t != nil {
		g = t.Group
		owner = t.Name
	}
	if d < 0 {
		d = 0
	}
	tm := &VTimer{ID: C.next, Deadline: vsched.G.Now + d, Period: period, Group: g, Owner: owner, ch: make(chan Time, 1), fn: fn}
	C.next++
	C.Timers = append(C.Timers, tm)
	return tm
}

func After(d Duration) <-chan Time { return newTimer(d, 0, nil).ch }

func Sleep(d Duration) {
	c := After(d)
	k, t := vsched.Select("vtime.Sleep", false, vsched.R(c))
	select {
	case <-vsched.On(k == 0, c):
		vsched.Post(t)
	}
}

type Ticker struct {
	C  <-chan Time
	tm *VTimer
}

func NewTicker(d Duration) *Ticker { tm := newTimer(d, d, nil); return &Ticker{C: tm.ch, tm: tm} }
func (t *Ticker) Stop()            { t.tm.Stopped = true }

type Timer struct {
	C  <-chan Time
	tm *VTimer
}

func NewTimer(d Duration) *Timer { tm := newTimer(d, 0, nil); return &Timer{C: tm.ch, tm: tm} }
func AfterFunc(d Duration, f func()) *Timer {
	tm := newTimer(d, 0, f)
	return &Timer{tm: tm}
}
// AfterFuncGroup is AfterFunc with an explicit owner group (the harness uses it for timers of its own, which
// must survive the crash of the server whose thread happened to create them).
func AfterFuncGroup(d Duration, group int, owner string, f func()) *Timer {
	tm := newTimer(d, 0, f)
	tm.Group, tm.Owner = group, owner
	return &Timer{tm: tm}
}
func (t *Timer) Stop() bool {
	was := !t.tm.Fired && !t.tm.Stopped
	t.tm.Stopped = true
	return was
}
func (t *Timer) Reset(d Duration) bool {
	was := !t.tm.Fired && !t.tm.Stopped
	t.tm.Stopped = true
	n := newTimer(d, 0, t.tm.fn)
	n.ch = t.tm.ch
	t.tm = n
	return was
}

// Pending returns unfired timers that some live thread is waiting on (or
// that carry a function), sorted by (deadline, id). A timer nobody waits on can
// only buffer a value into its own channel, so skipping it loses no behaviour.
func Pending() []*VTimer {
	var out []*VTimer
	w := 0
	waited := vsched.G.WaitedChans()
	for _, t := range C.Timers {
		if t.Fired || t.Stopped {
			continue
		}
		C.Timers[w] = t
		w++
		if t.fn == nil && !waited[reflect.ValueOf(t.ch).Pointer()] {
			continue
		}
		out = append(out, t)
	}
	for i := w; i < len(C.Timers); i++ {
		C.Timers[i] = nil
	}
	C.Timers = C.Timers[:w]
	sort.SliceStable(out, func(i, j int) bool {
		if out[i].Deadline != out[j].Deadline {
			return out[i].Deadline < out[j].Deadline
		}
		return out[i].ID < out[j].ID
	})
	return out
}

// StopGroup cancels all timers of a crashed group.
func StopGroup(g int) {
	for _, t := range C.Timers {
		if t.Group == g {
			t.Stopped = true
		}
	}
}

// Fire delivers the timer; the clock never moves backwards.
func Fire(t *VTimer) {
	if t.Deadline > vsched.G.Now {
		vsched.G.Now = t.Deadline
	}
	if t.fn != nil {
		fn := t.fn
		t.Fired = true
		vsched.GoNamed("afterfunc", t.Group, fn)
		return
	}
	select {
	case t.ch <- Now():
	default:
	}
	if t.Period > 0 {
		t.Deadline = vsched.G.Now + t.Period
	} else {
		t.Fired = true
	}
}
