// Package vsync: scheduler-aware replacements for the parts of sync used by raft.
package vsync

import "github.com/hashicorp/raft/zzverif/vsched"

type Mutex struct{ held bool }

func (m *Mutex) Lock() {
	if vsched.Killed() {
		return
	}
	vsched.Wait("lock", func() bool { return !m.held })
	m.held = true
}
func (m *Mutex) TryLock() bool {
	if m.held {
		return false
	}
	m.held = true
	return true
}
func (m *Mutex) Unlock() {
	if !m.held && !vsched.Killed() {
		panic("vsync: unlock of unlocked mutex")
	}
	m.held = false
}

type RWMutex struct {
	w bool
	r int
}

func (m *RWMutex) Lock() {
	if vsched.Killed() {
		return
	}
	vsched.Wait("wlock", func() bool { return !m.w && m.r == 0 })
	m.w = true
}
func (m *RWMutex) Unlock() { m.w = false }
func (m *RWMutex) RLock() {
	if vsched.Killed() {
		return
	}
	vsched.Wait("rlock", func() bool { return !m.w })
	m.r++
}
func (m *RWMutex) RUnlock() {
	if m.r > 0 {
		m.r--
	}
}

type WaitGroup struct{ n int }

func (w *WaitGroup) Add(d int) { w.n += d }
func (w *WaitGroup) Done()     { w.n-- }
func (w *WaitGroup) Wait() {
	if vsched.Killed() {
		return
	}
	vsched.Wait("wg", func() bool { return w.n <= 0 })
}

type Once struct {
	m    Mutex
	done bool
}

func (o *Once) Do(f func()) {
	o.m.Lock()
	defer o.m.Unlock()
	if !o.done {
		o.done = true
		f()
	}
}
