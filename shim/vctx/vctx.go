package vctx

import "github.com/hashicorp/raft/zzverif/vsched"

type Context interface{ Done() <-chan struct{} }
type CancelFunc func()
type ctx struct {
	ch   chan struct{}
	done bool
}

func (c *ctx) Done() <-chan struct{} { return c.ch }
func Background() Context            { return &ctx{} }
func WithCancel(parent Context) (Context, CancelFunc) {
	c := &ctx{ch: make(chan struct{})}
	return c, func() {
		if !c.done {
			c.done = true
			vsched.Close(c.ch)
		}
	}
}
