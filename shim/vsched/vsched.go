// Package vsched is a cooperative scheduler: exactly one managed goroutine
// ("thread") runs at any time; every blocking operation of instrumented code is
// a call into this package, which decides (through a Strategy) who runs next.
//
// It is mapped (go build -overlay) as a virtual package inside the raft module
// so that instrumented raft code and the harness share one scheduler.
package vsched

import (
	"cmp"
	"fmt"
	"iter"
	"reflect"
	"runtime"
	"slices"
	"sort"
	"strings"
	"time"
)

type Dir int

const (
	DirRecv Dir = iota
	DirSend
)

type Case struct {
	Dir Dir
	rv  reflect.Value
	id  uintptr // channel identity, 0 for nil channel
}

func mk(d Dir, c any) Case {
	rv := reflect.ValueOf(c)
	cs := Case{Dir: d, rv: rv}
	if rv.IsValid() && !rv.IsNil() {
		cs.id = rv.Pointer()
	}
	return cs
}
func R(c any) Case { return mk(DirRecv, c) }
func S(c any) Case { return mk(DirSend, c) }

// On / OnS gate a channel: the real channel if this case was chosen, nil otherwise.
func On[T any](c bool, ch <-chan T) <-chan T {
	if c {
		return ch
	}
	return nil
}
func OnS[T any](c bool, ch chan<- T) chan<- T {
	if c {
		return ch
	}
	return nil
}

type opKind int

const (
	opNone   opKind = iota // running
	opStart                // freshly created or resumed after rendezvous: always enabled
	opSelect               // channel select
	opWait                 // generic wait on a predicate (mutex, waitgroup, harness awaits)
	opPoint                // pure scheduling point, always enabled
)

type Thread struct {
	ID    int
	Group int
	Name  string

	wake    chan struct{}
	kind    opKind
	cases   []Case
	hasDef  bool
	pred    func() bool
	What    string // site of the pending operation
	choice  int
	partner bool // passive side of a rendezvous in progress
	await   bool // active side: must wait for the partner to re-park
	done    bool
	dead    bool // crashed: never scheduled again
	Data    any  // harness payload
}

func (t *Thread) Done() bool { return t.done }
func (t *Thread) Dead() bool { return t.dead }

// Transition is one enabled step.
type Transition struct {
	T       *Thread // nil for env transitions
	Case    int     // select case (-1: default / not a select)
	Partner *Thread // rendezvous partner
	PCase   int
	Env     *EnvT
}

type EnvT struct {
	Key  string // canonical description
	Do   func()
	Cost int // deviation cost under the default policy (0 = default behaviour)
}

func (t Transition) String() string {
	if t.Env != nil {
		return "env:" + t.Env.Key
	}
	s := fmt.Sprintf("t%d(%s)@%s", t.T.ID, t.T.Name, t.T.What)
	if t.Case >= 0 {
		s += fmt.Sprintf(".c%d", t.Case)
	}
	if t.Partner != nil {
		s += fmt.Sprintf("~t%d.c%d", t.Partner.ID, t.PCase)
	}
	return s
}

type Strategy interface {
	// Choose picks among enabled transitions (canonical order); nThread is the
	// number of thread transitions (they come first); cur is the index of
	// "continue current thread" or -1. Return <0 to stop the execution.
	Choose(s *Sched, opts []Transition, nThread int, cur int) int
	// Coarse reports whether thread steps are deterministic (fast path: the
	// running thread continues whenever it can).
	Coarse() bool
}

type Sched struct {
	Threads []*Thread
	cur     *Thread
	closed  map[uintptr]bool
	keep    []any // closed channels are kept alive so that their addresses are not reused within an execution
	Now     time.Duration
	Strat   Strategy
	EnvFn   func(nThread int) []EnvT // harness: enabled environment transitions given the number of enabled thread transitions
	endCh   chan string
	Steps   int
	MaxStep int
	killed  bool
	exitCh  chan struct{}
	ppCh    chan struct{} // partner parked
	Trace   []string
	KeepTr  bool
	Fine    bool // treat mutex ops as scheduling points
	// SelectBranch: in coarse mode, a select with several ready cases is handed to the strategy instead of taking the first
	SelectBranch bool
	Panics  []string
	OnPanic func(t *Thread, v any, stack string)
	ended   bool
	nextID  int
	inSched int // >0 while strategy / environment code runs on the scheduler's behalf
}

var G *Sched

func New(st Strategy) *Sched {
	s := &Sched{closed: map[uintptr]bool{}, Strat: st, endCh: make(chan string, 1), MaxStep: 2000000,
		exitCh: make(chan struct{}, 1), ppCh: make(chan struct{}, 1)}
	G = s
	return s
}

func Cur() *Thread {
	if G == nil {
		return nil
	}
	return G.cur
}

type killSig struct{}

// Go starts a managed thread in the group of the creator.
func Go(f func()) { GoNamed("", -1, f) }

func GoNamed(name string, group int, f func()) *Thread {
	s := G
	if s.killed {
		return nil
	}
	if len(s.Threads) >= 64 && len(s.Threads)%64 == 0 {
		// drop finished threads so that long sequential runs stay linear
		w := 0
		for _, x := range s.Threads {
			if !x.done {
				s.Threads[w] = x
				w++
			}
		}
		for i := w; i < len(s.Threads); i++ {
			s.Threads[i] = nil
		}
		s.Threads = s.Threads[:w]
	}
	s.nextID++
	t := &Thread{ID: s.nextID - 1, Name: name, wake: make(chan struct{}, 1), kind: opStart, Group: group, What: "start"}
	if s.cur != nil {
		if group < 0 {
			t.Group = s.cur.Group
		}
		if name == "" {
			t.Name = s.cur.Name + "+"
		}
	}
	s.Threads = append(s.Threads, t)
	go func() {
		<-t.wake
		defer func() {
			v := recover()
			t.done = true
			if s.killed {
				s.exitCh <- struct{}{}
				return
			}
			if v != nil {
				buf := make([]byte, 16384)
				n := runtime.Stack(buf, false)
				st := string(buf[:n])
				s.Panics = append(s.Panics, fmt.Sprintf("t%d(%s) g%d: %v\n%s", t.ID, t.Name, t.Group, v, st))
				if s.OnPanic != nil {
					s.OnPanic(t, v, st)
				}
			}
			s.resched(t, true)
		}()
		if s.killed {
			return
		}
		f()
	}()
	return t
}

// Run starts the execution with thread main and returns the end reason.
func (s *Sched) Run(main func()) string {
	t := GoNamed("main", 0, main)
	s.cur = t
	t.kind = opNone
	t.wake <- struct{}{}
	return <-s.endCh
}

// Kill terminates all parked goroutines, one at a time.
func (s *Sched) Kill() {
	s.killed = true
	for _, t := range s.Threads {
		if t.done {
			continue
		}
		t.wake <- struct{}{}
		<-s.exitCh
	}
}

func (s *Sched) park(t *Thread) {
	<-t.wake
	if s.killed {
		panic(killSig{})
	}
}

func (s *Sched) enabledFor(t *Thread, out []Transition) []Transition {
	switch t.kind {
	case opStart, opPoint:
		return append(out, Transition{T: t, Case: -1})
	case opWait:
		if t.pred() {
			return append(out, Transition{T: t, Case: -1})
		}
		return out
	case opSelect:
		any := false
		for i, c := range t.cases {
			if c.id == 0 {
				continue
			}
			l, cp := c.rv.Len(), c.rv.Cap()
			if s.closed[c.id] || (c.Dir == DirRecv && l > 0) || (c.Dir == DirSend && l < cp) {
				out = append(out, Transition{T: t, Case: i})
				any = true
				continue
			}
			if cp != 0 {
				continue
			}
			for _, u := range s.Threads {
				if u == t || u.done || u.dead || u.kind != opSelect {
					continue
				}
				for j, d := range u.cases {
					if d.id == c.id && d.Dir != c.Dir {
						out = append(out, Transition{T: t, Case: i, Partner: u, PCase: j})
						any = true
					}
				}
			}
		}
		if !any && t.hasDef {
			out = append(out, Transition{T: t, Case: -1})
		}
		return out
	}
	return out
}

func (s *Sched) options(t *Thread, exiting bool) (opts []Transition, nThread, cur int) {
	cur = -1
	if !exiting && !t.dead {
		opts = s.enabledFor(t, opts)
		if len(opts) > 0 {
			cur = 0
		}
	}
	for _, u := range s.Threads {
		if u == t || u.done || u.dead {
			continue
		}
		n := len(opts)
		opts = s.enabledFor(u, opts)
		w := n
		for k := n; k < len(opts); k++ {
			o := opts[k]
			dup := false
			if o.Partner != nil {
				for _, p := range opts[:n] {
					if p.Partner == o.T && p.T == o.Partner && p.Case == o.PCase && p.PCase == o.Case {
						dup = true
						break
					}
				}
			}
			if !dup {
				opts[w] = o
				w++
			}
		}
		opts = opts[:w]
	}
	nThread = len(opts)
	if s.EnvFn != nil {
		s.inSched++
		envs := s.EnvFn(nThread)
		s.inSched--
		for i := range envs {
			opts = append(opts, Transition{Env: &envs[i]})
		}
	}
	return
}

// End terminates the execution from inside a thread (e.g. goal reached).
func (s *Sched) end(reason string) {
	if !s.ended {
		s.ended = true
		s.endCh <- reason
	}
}

// resched is called by the running thread t when it reaches a scheduling
// point (its op fields are set) or exits.
func (s *Sched) resched(t *Thread, exiting bool) {
	for {
		s.Steps++
		var opts []Transition
		var nThread, cur int
		k := -1
		reason := "quiescent"
		// fast path: coarse mode, current thread can continue with a single option
		if !exiting && !t.dead && !s.ended && s.Strat.Coarse() && s.Steps <= s.MaxStep {
			opts = s.enabledFor(t, opts)
			if len(opts) > 1 && s.SelectBranch {
				opts = nil // several ready cases of one select: the strategy decides (slow path)
			} else if len(opts) > 0 {
				k, nThread, cur = 0, len(opts), 0
				opts = opts[:1]
			} else {
				opts = nil
			}
		}
		if k < 0 {
			opts, nThread, cur = s.options(t, exiting)
			if s.ended {
				opts = nil
			}
			if len(opts) > 0 {
				if s.Steps > s.MaxStep {
					reason = "maxsteps"
				} else {
					s.inSched++
					k = s.Strat.Choose(s, opts, nThread, cur)
					s.inSched--
					reason = "stop"
				}
			}
		}
		if k < 0 {
			s.end(reason)
			if exiting {
				return
			}
			s.park(t) // only Kill wakes us
			continue
		}
		ch := opts[k]
		if s.KeepTr {
			s.Trace = append(s.Trace, ch.String())
		}
		if ch.Env != nil {
			s.inSched++
			ch.Env.Do()
			s.inSched--
			continue
		}
		u := ch.T
		u.choice = ch.Case
		u.kind = opNone
		s.cur = u
		if p := ch.Partner; p != nil {
			p.choice = ch.PCase
			p.kind = opNone
			p.partner = true
			u.await = true
			if p != t || exiting {
				p.wake <- struct{}{}
			}
			if p == t && !exiting {
				u.wake <- struct{}{}
				return // t performs its native op as the passive side, then parks in Post
			}
		}
		if u == t && !exiting {
			return
		}
		u.wake <- struct{}{}
		if exiting {
			return
		}
		s.park(t)
		return
	}
}

// Select registers the pending channel operation and returns the index of the
// case to take (-1: default clause) and the calling thread.
func Select(site string, hasDefault bool, cases ...Case) (int, *Thread) {
	s := G
	if s.killed {
		panic(killSig{})
	}
	if s.inSched > 0 {
		panic("vsched: channel operation (" + site + ") from scheduler context")
	}
	t := s.cur
	t.kind = opSelect
	t.cases = cases
	t.hasDef = hasDefault
	t.What = site
	s.resched(t, false)
	t.cases = nil
	return t.choice, t
}

// Post is the first statement of every non-default comm clause.
func Post(t *Thread) {
	s := G
	if t.partner {
		t.partner = false
		t.kind = opStart
		t.What = "post-rendezvous"
		s.ppCh <- struct{}{}
		s.park(t)
	} else if t.await {
		t.await = false
		<-s.ppCh
	}
}

func Spin() { runtime.Gosched() }

func Close[T any](c chan T) {
	if G != nil {
		G.closed[reflect.ValueOf(c).Pointer()] = true
		G.keep = append(G.keep, c)
	}
	close(c)
}

// MarkClosed records a channel closed by non-instrumented code.
func MarkClosed(c any) {
	G.closed[reflect.ValueOf(c).Pointer()] = true
	G.keep = append(G.keep, c)
}

// Point is a pure scheduling point.
func Point(what string) {
	s := G
	if s.killed {
		panic(killSig{})
	}
	t := s.cur
	t.kind = opPoint
	t.What = what
	s.resched(t, false)
}

// Wait parks until pred holds.
func Wait(what string, pred func() bool) {
	s := G
	if s.killed {
		panic(killSig{})
	}
	t := s.cur
	if s.inSched > 0 || s.ended {
		// strategy/environment code, or the harness after the execution ended: never a scheduling point
		if !pred() {
			panic("vsched: blocking wait (" + what + ") outside a running thread")
		}
		return
	}
	if !s.Fine && pred() {
		return
	}
	t.kind = opWait
	t.pred = pred
	t.What = what
	s.resched(t, false)
	t.pred = nil
}

// WaitAlways parks (even in coarse mode) until pred holds; used for harness awaits.
func WaitAlways(what string, pred func() bool) {
	s := G
	if s.killed {
		panic(killSig{})
	}
	t := s.cur
	t.kind = opWait
	t.pred = pred
	t.What = what
	s.resched(t, false)
	t.pred = nil
}

// Halt parks the calling thread for ever (crash in the middle of an operation).
func Halt() {
	Wait("halt", func() bool { return false })
	for {
		WaitAlways("halt", func() bool { return false })
	}
}

func Killed() bool { return G == nil || G.killed }

// Live describes live threads (for deadlock reports / state keys).
func (s *Sched) Live(group func(g int) bool) []string {
	var out []string
	for _, t := range s.Threads {
		if t.done || t.dead || (group != nil && !group(t.Group)) {
			continue
		}
		out = append(out, fmt.Sprintf("%s#%d@%s/k%d", t.Name, t.ID, t.What, t.kind))
	}
	sort.Strings(out)
	return out
}

func (s *Sched) LiveString() string { return strings.Join(s.Live(nil), " | ") }

// KillGroup marks all threads of a group dead (crash).
func (s *Sched) KillGroup(g int) {
	for _, t := range s.Threads {
		if t.Group == g && !t.done {
			t.dead = true
		}
	}
}

// Stop asks the scheduler to end the execution at the next scheduling point.
func (s *Sched) Ended() bool { return s.ended }

// WaitedChans returns the identities of channels on which some live, parked
// thread has a pending receive case.
func (s *Sched) WaitedChans() map[uintptr]bool {
	m := map[uintptr]bool{}
	for _, t := range s.Threads {
		if t.done || t.dead || t.kind != opSelect {
			continue
		}
		for _, c := range t.cases {
			if c.id != 0 && c.Dir == DirRecv {
				m[c.id] = true
			}
		}
	}
	return m
}

// SortedMap iterates a map in ascending key order (presence re-checked at each
// step, so deletions during iteration behave as in Go). It replaces `range m`
// in instrumented code so that hash-map order is not a hidden source of
// nondeterminism.
func SortedMap[M ~map[K]V, K cmp.Ordered, V any](m M) iter.Seq2[K, V] {
	return func(yield func(K, V) bool) {
		keys := make([]K, 0, len(m))
		for k := range m {
			keys = append(keys, k)
		}
		slices.Sort(keys)
		for _, k := range keys {
			v, ok := m[k]
			if !ok {
				continue
			}
			if !yield(k, v) {
				return
			}
		}
	}
}

// Recv / Recv2 are scheduler-aware receive expressions.
func Recv[T any](site string, ch <-chan T) T {
	k, t := Select(site, false, R(ch))
	var v T
	select {
	case v = <-On(k == 0, ch):
		Post(t)
	}
	return v
}

func Recv2[T any](site string, ch <-chan T) (T, bool) {
	k, t := Select(site, false, R(ch))
	var v T
	var ok bool
	select {
	case v, ok = <-On(k == 0, ch):
		Post(t)
	}
	return v, ok
}
