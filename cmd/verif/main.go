// verif is the driver: it instruments /repo's current working tree, builds the
// worker binary through `go build -overlay` (cached by a content hash of every
// input) and runs the requested check in it.
//
//	verif setup
//	verif check <Cxx> [--tier quick|thorough] [worker flags...]
//	verif replay <file>
//	verif run <worker args...>          (development)
package main

import (
	"fmt"
	"os"
	"os/exec"
	"path/filepath"
	"sort"
	"strings"
	"syscall"
	"time"

	"verif/internal/instr"
)

const exitInternal = 2

func verifDir() string {
	if d := os.Getenv("VERIF_DIR"); d != "" {
		return d
	}
	exe, err := os.Executable()
	if err == nil {
		d := filepath.Dir(filepath.Dir(exe))
		if _, err := os.Stat(filepath.Join(d, "properties.jsonl")); err == nil {
			return d
		}
	}
	wd, _ := os.Getwd()
	return wd
}

func repoDir() string {
	if d := os.Getenv("VERIF_REPO"); d != "" {
		return d
	}
	return "/repo"
}

func die(code int, f string, a ...any) {
	fmt.Fprintf(os.Stderr, "verif: "+f+"\n", a...)
	os.Exit(code)
}

func goEnv() []string {
	env := []string{}
	for _, e := range os.Environ() {
		if strings.HasPrefix(e, "GOFLAGS=") || strings.HasPrefix(e, "GOPROXY=") || strings.HasPrefix(e, "GOTOOLCHAIN=") || strings.HasPrefix(e, "GOSUMDB=") || strings.HasPrefix(e, "GOWORK=") {
			continue
		}
		env = append(env, e)
	}
	// GOTOOLCHAIN must stay "auto": /repo/go.mod asks for go1.24.0 which is in the module cache.
	return append(env, "GOFLAGS=-mod=mod", "GOPROXY=off", "GOWORK=off", "GONOSUMDB=*", "GONOSUMCHECK=1", "GOFLAGS=-mod=mod")
}

// ensureWorker returns the path of a worker binary built from the current trees.
func ensureWorker() string {
	vd, rd := verifDir(), repoDir()
	var repoFiles []string
	ents, err := os.ReadDir(rd)
	if err != nil {
		die(exitInternal, "cannot read %s: %v", rd, err)
	}
	for _, e := range ents {
		n := e.Name()
		if e.IsDir() {
			continue
		}
		if (strings.HasSuffix(n, ".go") && !strings.HasSuffix(n, "_test.go")) || n == "go.mod" || n == "go.sum" {
			repoFiles = append(repoFiles, filepath.Join(rd, n))
		}
	}
	hash, err := instr.HashInputs([]string{filepath.Join(vd, "shim"), filepath.Join(vd, "worker"), filepath.Join(vd, "overlay"), filepath.Join(vd, "internal")},
		append(repoFiles, filepath.Join(vd, "go.mod"), filepath.Join(vd, "worker", "go.sum")))
	if err != nil {
		die(exitInternal, "hash: %v", err)
	}
	bdir := filepath.Join(vd, ".build", hash)
	bin := filepath.Join(bdir, "worker")
	if _, err := os.Stat(bin); err == nil {
		now := time.Now()
		os.Chtimes(bdir, now, now)
		return bin
	}
	// serialise concurrent builders
	os.MkdirAll(filepath.Join(vd, ".build"), 0o755)
	lf, err := os.OpenFile(filepath.Join(vd, ".build", "lock"), os.O_CREATE|os.O_RDWR, 0o644)
	if err == nil {
		syscall.Flock(int(lf.Fd()), syscall.LOCK_EX)
		defer func() { syscall.Flock(int(lf.Fd()), syscall.LOCK_UN); lf.Close() }()
	}
	if _, err := os.Stat(bin); err == nil {
		return bin
	}
	t0 := time.Now()
	gen := filepath.Join(bdir, "gen")
	os.RemoveAll(bdir)
	extra := map[string]string{}
	ov, _ := os.ReadDir(filepath.Join(vd, "overlay"))
	for _, e := range ov {
		if strings.HasSuffix(e.Name(), ".go") {
			extra["zz_"+e.Name()] = filepath.Join(vd, "overlay", e.Name())
		}
	}
	os.Setenv("GOFLAGS", "-mod=mod")
	os.Setenv("GOPROXY", "off")
	res, err := instr.Generate(rd, filepath.Join(vd, "shim"), gen, extra)
	if err != nil {
		os.RemoveAll(bdir)
		die(exitInternal, "INTERNAL: cannot instrument %s: %v", rd, err)
	}
	tmp := bin + ".tmp"
	cmd := exec.Command("go", "build", "-overlay", res.OverlayPath, "-o", tmp, ".")
	cmd.Dir = filepath.Join(vd, "worker")
	cmd.Env = goEnv()
	out, err := cmd.CombinedOutput()
	if err != nil {
		os.RemoveAll(bdir)
		die(exitInternal, "INTERNAL: worker build failed: %v\n%s", err, out)
	}
	if err := os.Rename(tmp, bin); err != nil {
		die(exitInternal, "rename: %v", err)
	}
	fmt.Fprintf(os.Stderr, "verif: built worker %s in %.1fs (instrumented: %v)\n", hash, time.Since(t0).Seconds(), res.Stats)
	pruneBuilds(filepath.Join(vd, ".build"), bdir)
	return bin
}

// pruneBuilds keeps the three most recently used build directories.
func pruneBuilds(root, keep string) {
	ents, _ := os.ReadDir(root)
	type d struct {
		p string
		t time.Time
	}
	var ds []d
	for _, e := range ents {
		if !e.IsDir() {
			continue
		}
		p := filepath.Join(root, e.Name())
		if p == keep {
			continue
		}
		fi, err := os.Stat(p)
		if err != nil {
			continue
		}
		ds = append(ds, d{p, fi.ModTime()})
	}
	sort.Slice(ds, func(i, j int) bool { return ds[i].t.After(ds[j].t) })
	for i, x := range ds {
		if i >= 2 {
			os.RemoveAll(x.p)
		}
	}
}

func runWorker(args []string) {
	bin := ensureWorker()
	cmd := exec.Command(bin, args...)
	cmd.Dir = verifDir()
	cmd.Stdout, cmd.Stderr, cmd.Stdin = os.Stdout, os.Stderr, os.Stdin
	cmd.Env = append(os.Environ(), "VERIF_DIR="+verifDir(), "VERIF_REPO="+repoDir())
	err := cmd.Run()
	if err == nil {
		os.Exit(0)
	}
	if ee, ok := err.(*exec.ExitError); ok {
		c := ee.ExitCode()
		if c == 0 || c == 1 {
			os.Exit(c)
		}
		fmt.Fprintf(os.Stderr, "verif: worker exited with %d (internal error)\n", c)
		os.Exit(exitInternal)
	}
	die(exitInternal, "worker: %v", err)
}

func main() {
	if len(os.Args) < 2 {
		die(exitInternal, "usage: verif setup | check <id> [--tier t] | replay <file> | run ...")
	}
	switch os.Args[1] {
	case "setup":
		bin := ensureWorker()
		fmt.Println("worker:", bin)
	case "check", "replay", "run", "list":
		runWorker(os.Args[1:])
	default:
		die(exitInternal, "unknown command %q", os.Args[1])
	}
}
