// Package instr rewrites the non-test sources of package raft so that goroutine
// creation, channel operations, close, sync, time, math/rand, context (and os in
// file_snapshot.go) go through the cooperative scheduler and its shims, and
// produces a `go build -overlay` map. /repo itself is never modified.
package instr

import (
	"crypto/sha256"
	"encoding/hex"
	"encoding/json"
	"fmt"
	"go/ast"
	"go/printer"
	"go/token"
	"go/types"
	"os"
	"path/filepath"
	"sort"
	"strconv"
	"strings"

	"golang.org/x/tools/go/packages"
)

const ShimBase = "github.com/hashicorp/raft/zzverif/"

var importMap = map[string][2]string{ // original path -> (shim path, local name)
	"sync":      {ShimBase + "vsync", "sync"},
	"time":      {ShimBase + "vtime", "time"},
	"math/rand": {ShimBase + "vrand", "rand"},
	"context":   {ShimBase + "vctx", "context"},
}

// per-file extra import replacements
var fileImportMap = map[string]map[string][2]string{
	"file_snapshot.go": {"os": {ShimBase + "vos", "os"}},
}

var Shims = []string{"vsched", "vsync", "vtime", "vrand", "vctx", "vos"}

type instr struct {
	fset   *token.FileSet
	info   *types.Info
	n      int
	used   bool
	stats  map[string]int
	fn     string // current function name
	fnSels map[string]int
	errs   []string
}

func id(s string) *ast.Ident { return ast.NewIdent(s) }
func sel(p, n string) ast.Expr {
	return &ast.SelectorExpr{X: id(p), Sel: id(n)}
}
func call(f ast.Expr, args ...ast.Expr) *ast.CallExpr { return &ast.CallExpr{Fun: f, Args: args} }
func strlit(s string) ast.Expr                        { return &ast.BasicLit{Kind: token.STRING, Value: strconv.Quote(s)} }

func isConstLike(e ast.Expr) bool {
	switch v := e.(type) {
	case *ast.BasicLit:
		return true
	case *ast.Ident:
		return v.Name == "nil" || v.Name == "true" || v.Name == "false"
	}
	return false
}

func (x *instr) fresh(p string) string { x.n++; return fmt.Sprintf("_vs%s%d", p, x.n) }

func (x *instr) site() string {
	x.fnSels[x.fn]++
	return fmt.Sprintf("%s#%d", x.fn, x.fnSels[x.fn])
}

// xformSelect rewrites a select statement (possibly synthesised from a bare send/recv).
func (x *instr) xformSelect(s *ast.SelectStmt, label *ast.Ident) ast.Stmt {
	x.used = true
	x.stats["select"]++
	var pre []ast.Stmt
	var cases []ast.Expr
	k := x.fresh("k")
	tv := x.fresh("t")
	hasDef := false
	var defClause *ast.CommClause
	idx := 0
	for _, c := range s.Body.List {
		cc := c.(*ast.CommClause)
		if cc.Comm == nil {
			hasDef = true
			defClause = cc
			continue
		}
		cond := &ast.BinaryExpr{X: id(k), Op: token.EQL, Y: &ast.BasicLit{Kind: token.INT, Value: strconv.Itoa(idx)}}
		switch cm := cc.Comm.(type) {
		case *ast.SendStmt:
			cv := x.fresh("c")
			pre = append(pre, &ast.AssignStmt{Lhs: []ast.Expr{id(cv)}, Tok: token.DEFINE, Rhs: []ast.Expr{cm.Chan}})
			if !isConstLike(cm.Value) {
				vv := x.fresh("v")
				pre = append(pre, &ast.AssignStmt{Lhs: []ast.Expr{id(vv)}, Tok: token.DEFINE, Rhs: []ast.Expr{cm.Value}})
				cm.Value = id(vv)
			}
			cm.Chan = call(sel("vsched", "OnS"), cond, id(cv))
			cases = append(cases, call(sel("vsched", "S"), id(cv)))
		case *ast.ExprStmt:
			u, ok := cm.X.(*ast.UnaryExpr)
			if !ok {
				x.errs = append(x.errs, fmt.Sprintf("%s: unsupported comm clause", x.fset.Position(cm.Pos())))
				continue
			}
			cv := x.fresh("c")
			pre = append(pre, &ast.AssignStmt{Lhs: []ast.Expr{id(cv)}, Tok: token.DEFINE, Rhs: []ast.Expr{u.X}})
			u.X = call(sel("vsched", "On"), cond, id(cv))
			cases = append(cases, call(sel("vsched", "R"), id(cv)))
		case *ast.AssignStmt:
			u, ok := cm.Rhs[0].(*ast.UnaryExpr)
			if !ok {
				x.errs = append(x.errs, fmt.Sprintf("%s: unsupported comm clause", x.fset.Position(cm.Pos())))
				continue
			}
			cv := x.fresh("c")
			pre = append(pre, &ast.AssignStmt{Lhs: []ast.Expr{id(cv)}, Tok: token.DEFINE, Rhs: []ast.Expr{u.X}})
			u.X = call(sel("vsched", "On"), cond, id(cv))
			cases = append(cases, call(sel("vsched", "R"), id(cv)))
		default:
			x.errs = append(x.errs, fmt.Sprintf("unhandled comm %T", cm))
		}
		cc.Body = append([]ast.Stmt{&ast.ExprStmt{X: call(sel("vsched", "Post"), id(tv))}}, cc.Body...)
		idx++
	}
	args := []ast.Expr{strlit(x.site()), id(strconv.FormatBool(hasDef))}
	args = append(args, cases...)
	pre = append(pre, &ast.AssignStmt{Lhs: []ast.Expr{id(k), id(tv)}, Tok: token.DEFINE, Rhs: []ast.Expr{call(sel("vsched", "Select"), args...)}})
	pre = append(pre, &ast.AssignStmt{Lhs: []ast.Expr{id("_")}, Tok: token.ASSIGN, Rhs: []ast.Expr{id(tv)}})
	var inner ast.Stmt = s
	if hasDef {
		// retry while the chosen rendezvous partner has not arrived yet
		lbl := x.fresh("L")
		retry := &ast.IfStmt{
			Cond: &ast.BinaryExpr{X: id(k), Op: token.GEQ, Y: &ast.BasicLit{Kind: token.INT, Value: "0"}},
			Body: &ast.BlockStmt{List: []ast.Stmt{
				&ast.ExprStmt{X: call(sel("vsched", "Spin"))},
				&ast.BranchStmt{Tok: token.GOTO, Label: id(lbl)},
			}},
		}
		defClause.Body = append([]ast.Stmt{retry}, defClause.Body...)
		inner = &ast.LabeledStmt{Label: id(lbl), Stmt: s}
	}
	blk := &ast.BlockStmt{List: append(pre, inner)}
	if label != nil {
		return &ast.LabeledStmt{Label: label, Stmt: blk}
	}
	return blk
}

func (x *instr) xformGo(g *ast.GoStmt) ast.Stmt {
	x.used = true
	x.stats["go"]++
	c := g.Call
	if fl, ok := c.Fun.(*ast.FuncLit); ok && len(c.Args) == 0 {
		return &ast.ExprStmt{X: call(sel("vsched", "Go"), fl)}
	}
	var pre []ast.Stmt
	// evaluate the function value and arguments now, as the go statement does
	if _, isLit := c.Fun.(*ast.FuncLit); !isLit {
		if se, ok := c.Fun.(*ast.SelectorExpr); ok {
			// method value or package function: evaluate the receiver expression if it is not a plain identifier
			if _, plain := se.X.(*ast.Ident); !plain {
				v := x.fresh("r")
				pre = append(pre, &ast.AssignStmt{Lhs: []ast.Expr{id(v)}, Tok: token.DEFINE, Rhs: []ast.Expr{se.X}})
				se.X = id(v)
			}
		}
	}
	for i, a := range c.Args {
		if isConstLike(a) {
			continue
		}
		v := x.fresh("a")
		pre = append(pre, &ast.AssignStmt{Lhs: []ast.Expr{id(v)}, Tok: token.DEFINE, Rhs: []ast.Expr{a}})
		c.Args[i] = id(v)
	}
	fl := &ast.FuncLit{Type: &ast.FuncType{Params: &ast.FieldList{}}, Body: &ast.BlockStmt{List: []ast.Stmt{&ast.ExprStmt{X: c}}}}
	pre = append(pre, &ast.ExprStmt{X: call(sel("vsched", "Go"), fl)})
	return &ast.BlockStmt{List: pre}
}

// ordered reports whether map key type t can be sorted by vsched.SortedMap.
func orderedKey(t types.Type) bool {
	b, ok := t.Underlying().(*types.Basic)
	if !ok {
		return false
	}
	return b.Info()&(types.IsInteger|types.IsFloat|types.IsString) != 0
}

func (x *instr) xformRange(r *ast.RangeStmt) {
	if x.info == nil {
		return
	}
	tv, ok := x.info.Types[r.X]
	if !ok {
		return
	}
	switch u := tv.Type.Underlying().(type) {
	case *types.Map:
		if orderedKey(u.Key()) {
			r.X = call(sel("vsched", "SortedMap"), r.X)
			x.used = true
			x.stats["maprange"]++
		} else {
			x.stats["maprange-unordered"]++
		}
	case *types.Chan:
		x.errs = append(x.errs, fmt.Sprintf("%s: range over channel is not supported by the instrumenter", x.fset.Position(r.Pos())))
	}
}

func (x *instr) xformStmt(s ast.Stmt) ast.Stmt {
	switch v := s.(type) {
	case *ast.SelectStmt:
		return x.xformSelect(v, nil)
	case *ast.LabeledStmt:
		if ss, ok := v.Stmt.(*ast.SelectStmt); ok {
			return x.xformSelect(ss, v.Label)
		}
		v.Stmt = x.xformStmt(v.Stmt)
		return v
	case *ast.SendStmt:
		x.stats["send"]++
		ss := &ast.SelectStmt{Body: &ast.BlockStmt{List: []ast.Stmt{&ast.CommClause{Comm: v}}}}
		return x.xformSelect(ss, nil)
	case *ast.ExprStmt:
		if u, ok := v.X.(*ast.UnaryExpr); ok && u.Op == token.ARROW {
			x.stats["recv"]++
			ss := &ast.SelectStmt{Body: &ast.BlockStmt{List: []ast.Stmt{&ast.CommClause{Comm: v}}}}
			return x.xformSelect(ss, nil)
		}
	case *ast.AssignStmt:
		// v := <-ch  /  v, ok := <-ch  /  x = <-ch
		if len(v.Rhs) == 1 {
			if u, ok := v.Rhs[0].(*ast.UnaryExpr); ok && u.Op == token.ARROW {
				x.stats["recv"]++
				cc := &ast.CommClause{Comm: v}
				ss := &ast.SelectStmt{Body: &ast.BlockStmt{List: []ast.Stmt{cc}}}
				if v.Tok == token.DEFINE {
					// declared variables must stay visible after the statement: declare first
					return x.recvDefine(v, u)
				}
				return x.xformSelect(ss, nil)
			}
		}
	case *ast.GoStmt:
		return x.xformGo(v)
	}
	return s
}

// recvDefine lowers `a, ok := <-ch` into scheduler-aware code keeping a, ok in scope.
// Because a block would hide the new variables, it becomes a call to the generic
// helpers vsched.Recv / vsched.Recv2.
func (x *instr) recvDefine(a *ast.AssignStmt, u *ast.UnaryExpr) ast.Stmt {
	x.used = true
	fn := "Recv"
	if len(a.Lhs) == 2 {
		fn = "Recv2"
	}
	a.Rhs[0] = call(sel("vsched", fn), strlit(x.site()), u.X)
	return a
}

func (x *instr) list(l []ast.Stmt) {
	for i, s := range l {
		l[i] = x.xformStmt(s)
	}
}

func funcName(d *ast.FuncDecl) string {
	return d.Name.Name
}

func (x *instr) file(f *ast.File) {
	for _, d := range f.Decls {
		fd, ok := d.(*ast.FuncDecl)
		if !ok || fd.Body == nil {
			continue
		}
		x.fn = funcName(fd)
		x.walk(fd.Body)
	}
}

func (x *instr) walk(root ast.Node) {
	var stack []ast.Node
	ast.Inspect(root, func(n ast.Node) bool {
		if n != nil {
			stack = append(stack, n)
			return true
		}
		top := stack[len(stack)-1]
		stack = stack[:len(stack)-1]
		switch b := top.(type) {
		case *ast.BlockStmt:
			x.list(b.List)
		case *ast.CaseClause:
			x.list(b.Body)
		case *ast.CommClause:
			x.list(b.Body)
		case *ast.CallExpr:
			if fn, ok := b.Fun.(*ast.Ident); ok && fn.Name == "close" && len(b.Args) == 1 {
				b.Fun = sel("vsched", "Close")
				x.used = true
				x.stats["close"]++
			}
		case *ast.RangeStmt:
			x.xformRange(b)
		case *ast.IfStmt:
			if b.Init != nil {
				if ns := x.xformStmt(b.Init); ns != b.Init {
					if as, ok := ns.(*ast.AssignStmt); ok {
						b.Init = as
					} else {
						x.errs = append(x.errs, fmt.Sprintf("%s: channel operation in if-init is not supported", x.fset.Position(b.Pos())))
					}
				}
			}
		}
		return true
	})
}

// checkUnsupported finds receive expressions that are not statement-level, assignments or select comms.
func checkUnsupported(fset *token.FileSet, f *ast.File) []string {
	var bad []string
	ok := map[*ast.UnaryExpr]bool{}
	mark := func(e ast.Expr) {
		if u, k := e.(*ast.UnaryExpr); k {
			ok[u] = true
		}
	}
	ast.Inspect(f, func(n ast.Node) bool {
		switch v := n.(type) {
		case *ast.CommClause:
			switch cm := v.Comm.(type) {
			case *ast.ExprStmt:
				mark(cm.X)
			case *ast.AssignStmt:
				mark(cm.Rhs[0])
			}
		case *ast.ExprStmt:
			mark(v.X)
		case *ast.AssignStmt:
			if len(v.Rhs) == 1 {
				mark(v.Rhs[0])
			}
		case *ast.UnaryExpr:
			if v.Op == token.ARROW && !ok[v] {
				bad = append(bad, fset.Position(v.Pos()).String()+": receive expression in unsupported position")
			}
		}
		return true
	})
	return bad
}

type Result struct {
	OverlayPath string
	Stats       map[string]int
}

// Generate instruments repoDir's package raft into outDir and writes outDir/overlay.json.
// extra maps file names to add to package raft (e.g. verif_export.go) to their source paths.
// plainFiles lists raft files that are substituted verbatim by another file (mutation overlays etc.).
func Generate(repoDir, shimDir, outDir string, extra map[string]string) (*Result, error) {
	if err := os.MkdirAll(outDir, 0o755); err != nil {
		return nil, err
	}
	cfg := &packages.Config{
		Mode: packages.NeedName | packages.NeedFiles | packages.NeedSyntax | packages.NeedTypes | packages.NeedTypesInfo | packages.NeedImports | packages.NeedCompiledGoFiles,
		Dir:  repoDir,
		Env:  append(os.Environ(), "GOFLAGS=-mod=mod", "GOPROXY=off"),
	}
	pkgs, err := packages.Load(cfg, ".")
	if err != nil {
		return nil, fmt.Errorf("load: %v", err)
	}
	if len(pkgs) != 1 {
		return nil, fmt.Errorf("expected one package, got %d", len(pkgs))
	}
	pkg := pkgs[0]
	if len(pkg.Errors) > 0 {
		var sb strings.Builder
		for _, e := range pkg.Errors {
			sb.WriteString(e.Error() + "\n")
		}
		return nil, fmt.Errorf("package raft does not type-check:\n%s", sb.String())
	}
	overlay := map[string]string{}
	total := map[string]int{}
	stub := map[string]bool{"testing.go": true, "testing_batch.go": true}
	var errs []string
	for i, f := range pkg.Syntax {
		path := pkg.CompiledGoFiles[i]
		name := filepath.Base(path)
		dst := filepath.Join(outDir, name)
		if stub[name] {
			if err := os.WriteFile(dst, []byte("package raft\n"), 0o644); err != nil {
				return nil, err
			}
			overlay[filepath.Join(repoDir, name)] = dst
			continue
		}
		var header string
		for _, cg := range f.Comments {
			if cg.Pos() > f.Package {
				break
			}
			for _, c := range cg.List {
				if strings.HasPrefix(c.Text, "//go:build") {
					header += c.Text + "\n\n"
				}
			}
		}
		f.Comments = nil
		f.Doc = nil
		if bad := checkUnsupported(pkg.Fset, f); len(bad) > 0 {
			errs = append(errs, bad...)
			continue
		}
		x := &instr{fset: pkg.Fset, info: pkg.TypesInfo, stats: total, fnSels: map[string]int{}}
		x.file(f)
		errs = append(errs, x.errs...)
		for _, im := range f.Imports {
			p, _ := strconv.Unquote(im.Path.Value)
			m, ok := importMap[p]
			if fm, ok2 := fileImportMap[name][p]; ok2 {
				m, ok = fm, true
			}
			if ok {
				im.Path.Value = strconv.Quote(m[0])
				if im.Name == nil {
					im.Name = id(m[1])
				}
			}
		}
		var sb strings.Builder
		sb.WriteString(header)
		if err := printer.Fprint(&sb, pkg.Fset, f); err != nil {
			return nil, err
		}
		text := sb.String()
		if x.used {
			i := strings.Index(text, "\npackage raft")
			if strings.HasPrefix(text, "package raft") {
				i = -1
			}
			j := i + 1 + strings.Index(text[i+1:], "\n") + 1
			text = text[:j] + "\nimport vsched \"" + ShimBase + "vsched\"\n" + text[j:]
		}
		if err := os.WriteFile(dst, []byte(text), 0o644); err != nil {
			return nil, err
		}
		overlay[filepath.Join(repoDir, name)] = dst
	}
	if len(errs) > 0 {
		return nil, fmt.Errorf("instrumenter: unsupported constructs:\n%s", strings.Join(errs, "\n"))
	}
	for _, p := range Shims {
		fs, _ := os.ReadDir(filepath.Join(shimDir, p))
		for _, e := range fs {
			if strings.HasSuffix(e.Name(), ".go") && !strings.HasSuffix(e.Name(), "_test.go") {
				overlay[filepath.Join(repoDir, "zzverif", p, e.Name())] = filepath.Join(shimDir, p, e.Name())
			}
		}
	}
	for name, src := range extra {
		overlay[filepath.Join(repoDir, name)] = src
	}
	b, _ := json.MarshalIndent(map[string]any{"Replace": overlay}, "", " ")
	op := filepath.Join(outDir, "overlay.json")
	if err := os.WriteFile(op, b, 0o644); err != nil {
		return nil, err
	}
	return &Result{OverlayPath: op, Stats: total}, nil
}

// HashInputs returns a content hash over the files that determine the worker binary.
func HashInputs(dirs []string, files []string) (string, error) {
	h := sha256.New()
	var all []string
	for _, d := range dirs {
		err := filepath.Walk(d, func(p string, info os.FileInfo, err error) error {
			if err != nil {
				return err
			}
			if info.IsDir() {
				if p != d && (strings.HasPrefix(info.Name(), ".") || info.Name() == "testdata") {
					return filepath.SkipDir
				}
				return nil
			}
			if strings.HasSuffix(p, ".go") || strings.HasSuffix(p, "go.mod") || strings.HasSuffix(p, "go.sum") {
				all = append(all, p)
			}
			return nil
		})
		if err != nil {
			return "", err
		}
	}
	all = append(all, files...)
	sort.Strings(all)
	for _, p := range all {
		b, err := os.ReadFile(p)
		if err != nil {
			return "", err
		}
		fmt.Fprintf(h, "%s %d\n", p, len(b))
		h.Write(b)
	}
	return hex.EncodeToString(h.Sum(nil))[:20], nil
}
