package raft

// Accessors added to package raft at build time only (go build -overlay); /repo is not modified.

type VerifDumpT struct {
	State            RaftState
	Term             uint64
	CommitIndex      uint64
	LastApplied      uint64
	LastLogIndex     uint64
	LastLogTerm      uint64
	LastSnapIndex    uint64
	LastSnapTerm     uint64
	Latest           Configuration
	LatestIndex      uint64
	Committed        Configuration
	CommittedIndex   uint64
	LeaderStartIndex uint64 // 0 when not leader
	Inflight         []uint64
	NextIndex        map[ServerID]uint64
}

// VerifDump reads private state. Only call it when every thread of this server is parked.
func (r *Raft) VerifDump() VerifDumpT {
	d := VerifDumpT{State: r.getState(), Term: r.getCurrentTerm(), CommitIndex: r.getCommitIndex(), LastApplied: r.getLastApplied()}
	d.LastLogIndex, d.LastLogTerm = r.getLastLog()
	d.LastSnapIndex, d.LastSnapTerm = r.getLastSnapshot()
	d.Latest = r.configurations.latest.Clone()
	d.LatestIndex = r.configurations.latestIndex
	d.Committed = r.configurations.committed.Clone()
	d.CommittedIndex = r.configurations.committedIndex
	if d.State == Leader && r.leaderState.commitment != nil {
		d.LeaderStartIndex = r.leaderState.commitment.startIndex
		if r.leaderState.inflight != nil {
			for e := r.leaderState.inflight.Front(); e != nil; e = e.Next() {
				d.Inflight = append(d.Inflight, e.Value.(*logFuture).log.Index)
			}
		}
		d.NextIndex = map[ServerID]uint64{}
		for id, s := range r.leaderState.replState {
			d.NextIndex[id] = s.nextIndex
		}
	}
	return d
}

// ---- commitment (C05) ----

type VerifCommitment struct {
	c  *commitment
	ch chan struct{}
}

func VerifNewCommitment(cfg Configuration, startIndex uint64) *VerifCommitment {
	ch := make(chan struct{}, 1)
	return &VerifCommitment{c: newCommitment(ch, cfg, startIndex), ch: ch}
}
func (v *VerifCommitment) Match(id ServerID, idx uint64)    { v.c.match(id, idx) }
func (v *VerifCommitment) SetConfiguration(c Configuration) { v.c.setConfiguration(c) }
func (v *VerifCommitment) CommitIndex() uint64              { return v.c.getCommitIndex() }

// Notified reports (and clears) whether the commit channel was signalled.
func (v *VerifCommitment) Notified() bool {
	select {
	case <-v.ch:
		return true
	default:
		return false
	}
}

// ---- nextConfiguration (C07) ----

func VerifNextConfiguration(current Configuration, currentIndex uint64, command ConfigurationChangeCommand, id ServerID, addr ServerAddress, prevIndex uint64) (Configuration, error) {
	return nextConfiguration(current, currentIndex, configurationChangeRequest{command: command, serverID: id, serverAddress: addr, prevIndex: prevIndex})
}

func VerifCheckConfiguration(c Configuration) error { return checkConfiguration(c) }

// ---- compaction arithmetic (C11) ----

func (r *Raft) VerifCompactLogsWithTrailing(snapIdx, lastLogIdx, trailing uint64) error {
	return r.compactLogsWithTrailing(snapIdx, lastLogIdx, trailing)
}

// ---- handlers on a Raft without goroutines (C04, C06) ----

// VerifNewRaftNoStart builds a Raft exactly as NewRaft does but starts no goroutine.
func VerifNewRaftNoStart(conf *Config, fsm FSM, logs LogStore, stable StableStore, snaps SnapshotStore, trans Transport) (*Raft, error) {
	c := *conf
	c.skipStartup = true
	return NewRaft(&c, fsm, logs, stable, snaps, trans)
}

// VerifProcessRPC runs the RPC handler synchronously and returns its response.
func (r *Raft) VerifProcessRPC(cmd interface{}) (interface{}, error) {
	ch := make(chan RPCResponse, 1)
	r.processRPC(RPC{Command: cmd, RespChan: ch})
	select {
	case resp := <-ch:
		return resp.Response, resp.Error
	default:
		return nil, nil
	}
}

func (r *Raft) VerifSetState(s RaftState) { r.raftState.setState(s) }

func (v *VerifCommitment) Dump() (map[ServerID]uint64, uint64, uint64) {
	m := map[ServerID]uint64{}
	for k, x := range v.c.matchIndexes {
		m[k] = x
	}
	return m, v.c.commitIndex, v.c.startIndex
}

// VerifLeaderChPeek reports what LeaderCh currently holds without consuming it (harness, scheduler context only).
func (r *Raft) VerifLeaderChPeek() (v bool, ok bool) {
	select {
	case v = <-r.leaderCh:
		r.leaderCh <- v
		return v, true
	default:
		return false, false
	}
}

// VerifElectSelf makes the server stand for election as its own election timeout would (skipping pre-vote):
// Candidate state, then the real electSelf. The vote requests to peers are issued by goroutines of their own.
func (r *Raft) VerifElectSelf() {
	r.setState(Candidate)
	r.electSelf()
}

// VerifCommitmentIndex: the commit index the leader's commitment tracker has computed so far (0 when not leader).
// Read without the tracker's lock: only call it from a thread of this server under the cooperative scheduler.
func (r *Raft) VerifCommitmentIndex() uint64 {
	if r.getState() != Leader || r.leaderState.commitment == nil {
		return 0
	}
	return r.leaderState.commitment.commitIndex
}
