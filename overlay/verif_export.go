package raft

// Accessors added to package raft at build time only (go build -overlay); /repo is not modified.

type VerifDumpT struct {
	State            RaftState
	Term             uint64
	CommitIndex      uint64
	LastApplied      uint64
	LastLogIndex     uint64
	LastLogTerm      uint64
	LastSnapIndex    uint64
	LastSnapTerm     uint64
	Latest           Configuration
	LatestIndex      uint64
	Committed        Configuration
	CommittedIndex   uint64
	LeaderStartIndex uint64 // 0 when not leader
	Inflight         []uint64
	NextIndex        map[ServerID]uint64
}

// VerifDump reads private state. Only call it when every thread of this server is parked.
func (r *Raft) VerifDump() VerifDumpT {
	d := VerifDumpT{State: r.getState(), Term: r.getCurrentTerm(), CommitIndex: r.getCommitIndex(), LastApplied: r.getLastApplied()}
	d.LastLogIndex, d.LastLogTerm = r.getLastLog()
	d.LastSnapIndex, d.LastSnapTerm = r.getLastSnapshot()
	d.Latest = r.configurations.latest.Clone()
	d.LatestIndex = r.configurations.latestIndex
	d.Committed = r.configurations.committed.Clone()
	d.CommittedIndex = r.configurations.committedIndex
	if d.State == Leader && r.leaderState.commitment != nil {
		d.LeaderStartIndex = r.leaderState.commitment.startIndex
		if r.leaderState.inflight != nil {
			for e := r.leaderState.inflight.Front(); e != nil; e = e.Next() {
				d.Inflight = append(d.Inflight, e.Value.(*logFuture).log.Index)
			}
		}
		d.NextIndex = map[ServerID]uint64{}
		for id, s := range r.leaderState.replState {
			d.NextIndex[id] = s.nextIndex
		}
	}
	return d
}
