package main

import (
	"bytes"
	"encoding/json"
	"fmt"
	"io"
	"sort"
	"strings"
	"time"

	"github.com/hashicorp/go-hclog"
	"github.com/hashicorp/raft"
	"github.com/hashicorp/raft/zzverif/vos"
	"github.com/hashicorp/raft/zzverif/vsched"
)

// ---------------------------------------------------------------------------
// C15: FileSnapshotStore over the in-memory file system `vos` (os is replaced in
// file_snapshot.go at build time). A history of snapshot operations is executed once;
// then, for EVERY prefix of the file-system operation log and EVERY combination of
// not-yet-durable effects surviving, the crash image is materialised and opened by a
// fresh FileSnapshotStore.
//
// Durability model (stated assumption, ext4/xfs-like):
//   * fsync(file) makes the file's data written so far durable, and the directory
//     entry that created the file;
//   * fsync(dir) makes every earlier entry operation of that directory durable
//     (mkdir/create/rename/unlink/rmdir);
//   * entry operations of one directory reach the disk in order (a prefix survives);
//     data operations of one file reach the disk in order (a prefix survives);
//   * everything else may or may not survive, independently per directory / file;
//     rename is atomic; a directory whose own entry did not survive is unreachable.

type snapSpec struct {
	Term, Index uint64
	Size        int    // bytes of state
	End         string // close | cancel | abandon
}

type c15history struct {
	Retain int        `json:"retain"`
	Snaps  []snapSpec `json:"snapshots"`
}

type c15case struct {
	Hist    c15history     `json:"history"`
	Prefix  int            `json:"crash_after_ops"`
	DirKeep map[string]int `json:"dir_ops_surviving"`  // by directory ino
	DatKeep map[string]int `json:"data_ops_surviving"` // by file ino
	Corrupt string         `json:"corrupt,omitempty"`  // "", "state", "meta-trunc", "meta-garble"
}

type snapRun struct {
	spec      snapSpec
	id        string
	data      []byte
	closedAt  int // log position at which Close returned nil (-1 never)
	dirSynced int // log position of the parent directory fsync inside Close (-1)
}

func snapData(i, size int) []byte {
	b := make([]byte, size)
	for k := range b {
		b[k] = byte('a' + (i*7+k)%23)
	}
	return b
}

const c15base = "/base"

// runHistory executes the history on a fresh vos and returns the log and what each snapshot did.
func runHistory(h c15history) (*vos.FS, []*snapRun, error) {
	fs := vos.Reset()
	st, err := raft.NewFileSnapshotStoreWithLogger(c15base, h.Retain, hclog.NewNullLogger())
	if err != nil {
		return nil, nil, err
	}
	fs.Log = nil // the empty store is the durable baseline
	tr := &VTrans{w: &World{}, n: &Node{addr: "n0"}}
	var runs []*snapRun
	for i, sp := range h.Snaps {
		// distinct creation instants give distinct snapshot names
		vsched.G.Now += 3 * time.Millisecond
		r := &snapRun{spec: sp, data: snapData(i, sp.Size), closedAt: -1, dirSynced: -1}
		sink, err := st.Create(1, sp.Index, sp.Term, raft.Configuration{Servers: []raft.Server{{ID: "n0", Address: "n0"}}}, 1, tr)
		if err != nil {
			return nil, nil, fmt.Errorf("create: %v", err)
		}
		r.id = sink.ID()
		runs = append(runs, r)
		if _, err := sink.Write(r.data); err != nil {
			return nil, nil, fmt.Errorf("write: %v", err)
		}
		switch sp.End {
		case "close":
			if err := sink.Close(); err != nil {
				return nil, nil, fmt.Errorf("close: %v", err)
			}
			r.closedAt = len(fs.Log)
		case "cancel":
			if err := sink.Cancel(); err != nil {
				return nil, nil, fmt.Errorf("cancel: %v", err)
			}
		}
	}
	// position of the parent-directory fsync that follows each snapshot's rename
	for _, r := range runs {
		seenRename := false
		for i, op := range fs.Log {
			if op.Kind == vos.OpRename && strings.HasSuffix(op.Path, "/"+r.id) {
				seenRename = true
			}
			if seenRename && op.Kind == vos.OpFsync && op.Path == c15base+"/snapshots" {
				r.dirSynced = i + 1
				break
			}
		}
	}
	return fs, runs, nil
}

// image materialisation -------------------------------------------------------

type dirOpRef struct{ pos int }

// analyse returns, for a crash after p operations, per directory the positions of its entry operations and the
// minimum number that is durable, and per file the positions of its data operations and the durable minimum.
func analyse(log []vos.Op, p int) (dirOps map[int][]int, dirMin map[int]int, datOps map[int][]int, datMin map[int]int) {
	dirOps, dirMin, datOps, datMin = map[int][]int{}, map[int]int{}, map[int][]int{}, map[int]int{}
	createOrd := map[int][2]int{} // file ino -> (dir ino, ordinal+1 of its create among the dir's ops)
	dirIno := map[string]int{}    // path -> ino for directory fsyncs
	for i := 0; i < p; i++ {
		op := log[i]
		switch op.Kind {
		case vos.OpMkdir:
			dirOps[op.Dir] = append(dirOps[op.Dir], i)
			dirIno[op.Path] = op.Ino
		case vos.OpCreate:
			if !op.Trunc {
				dirOps[op.Dir] = append(dirOps[op.Dir], i)
				createOrd[op.Ino] = [2]int{op.Dir, len(dirOps[op.Dir])}
			} else {
				datOps[op.Ino] = append(datOps[op.Ino], i)
			}
		case vos.OpWrite:
			datOps[op.Ino] = append(datOps[op.Ino], i)
		case vos.OpUnlink, vos.OpRmdir:
			dirOps[op.Dir] = append(dirOps[op.Dir], i)
		case vos.OpRename:
			dirOps[op.Dir] = append(dirOps[op.Dir], i)
			// the renamed directory keeps its identity; remember its new path for fsync lookups
			dirIno[op.Path] = op.Ino
		case vos.OpFsync:
			if _, isFile := createOrd[op.Ino]; isFile || len(datOps[op.Ino]) > 0 {
				datMin[op.Ino] = len(datOps[op.Ino])
				if co, ok := createOrd[op.Ino]; ok && co[1] > dirMin[co[0]] {
					dirMin[co[0]] = co[1]
				}
			} else {
				// directory fsync: op.Ino is the directory
				dirMin[op.Ino] = len(dirOps[op.Ino])
			}
		}
	}
	return
}

// materialise builds the crash image.
func materialise(base *vos.FS, log []vos.Op, p int, dirKeep, datKeep map[int]int) *vos.FS {
	img := cloneFS(base)
	nodes := map[int]*vos.Node{}
	var index func(n *vos.Node)
	index = func(n *vos.Node) {
		nodes[n.Ino] = n
		for _, c := range n.Children {
			index(c)
		}
	}
	index(img.Root)
	dirSeen, datSeen := map[int]int{}, map[int]int{}
	for i := 0; i < p; i++ {
		op := log[i]
		switch op.Kind {
		case vos.OpMkdir, vos.OpUnlink, vos.OpRmdir, vos.OpRename:
			dirSeen[op.Dir]++
			if dirSeen[op.Dir] > dirKeep[op.Dir] {
				continue
			}
			d := nodes[op.Dir]
			if d == nil {
				continue // the directory itself never made it to disk
			}
			switch op.Kind {
			case vos.OpMkdir:
				n := &vos.Node{IsDir: true, Children: map[string]*vos.Node{}, Ino: op.Ino}
				d.Children[op.Name] = n
				nodes[op.Ino] = n
			case vos.OpUnlink, vos.OpRmdir:
				delete(d.Children, op.Name)
			case vos.OpRename:
				src := nodes[op.Dir2]
				if src == nil {
					continue
				}
				n := src.Children[op.Name2]
				if n == nil {
					continue
				}
				delete(src.Children, op.Name2)
				d.Children[op.Name] = n
			}
		case vos.OpCreate:
			if op.Trunc {
				datSeen[op.Ino]++
				if datSeen[op.Ino] > datKeep[op.Ino] {
					continue
				}
				if n := nodes[op.Ino]; n != nil {
					n.Data = nil
				}
				continue
			}
			dirSeen[op.Dir]++
			if dirSeen[op.Dir] > dirKeep[op.Dir] {
				continue
			}
			d := nodes[op.Dir]
			if d == nil {
				continue
			}
			n := &vos.Node{Ino: op.Ino}
			d.Children[op.Name] = n
			nodes[op.Ino] = n
		case vos.OpWrite:
			datSeen[op.Ino]++
			if datSeen[op.Ino] > datKeep[op.Ino] {
				continue
			}
			if n := nodes[op.Ino]; n != nil {
				n.Data = append(n.Data, op.Data...)
			}
		}
	}
	return img
}

func cloneFS(f *vos.FS) *vos.FS {
	var cp func(n *vos.Node) *vos.Node
	cp = func(n *vos.Node) *vos.Node {
		c := &vos.Node{IsDir: n.IsDir, Ino: n.Ino, Data: append([]byte(nil), n.Data...)}
		if n.IsDir {
			c.Children = map[string]*vos.Node{}
			for k, v := range n.Children {
				c.Children[k] = cp(v)
			}
		}
		return c
	}
	return vos.FromRoot(cp(f.Root))
}

// ---------------------------------------------------------------------------

func newer(a, b *snapRun) bool {
	if a.spec.Term != b.spec.Term {
		return a.spec.Term > b.spec.Term
	}
	if a.spec.Index != b.spec.Index {
		return a.spec.Index > b.spec.Index
	}
	return a.id > b.id
}

// checkImage opens the image with a fresh store and applies the oracle.
func checkImage(img *vos.FS, h c15history, runs []*snapRun, p int, corrupt string) string {
	vos.Cur = img
	byID := map[string]*snapRun{}
	for _, r := range runs {
		byID[r.id] = r
	}
	// optional corruption of the newest complete snapshot in the image
	corrupted := ""
	if corrupt != "" {
		corrupted = corruptNewest(img, corrupt)
		if corrupted == "" {
			return ""
		}
	}
	st, err := raft.NewFileSnapshotStoreWithLogger(c15base, h.Retain, hclog.NewNullLogger())
	if err != nil {
		return "cannot open the store on the crash image: " + err.Error()
	}
	metas, err := st.List()
	if err != nil {
		return "List failed on the crash image: " + err.Error()
	}
	if len(metas) > h.Retain {
		return fmt.Sprintf("List returned %d snapshots, retain is %d", len(metas), h.Retain)
	}
	listed := map[string]bool{}
	var prev *snapRun
	for _, m := range metas {
		r := byID[m.ID]
		if r == nil {
			return "List returned unknown snapshot " + m.ID
		}
		listed[m.ID] = true
		if prev != nil && !newer(prev, r) {
			return fmt.Sprintf("List is not newest first: %s before %s", prev.id, r.id)
		}
		prev = r
		if r.spec.End != "close" {
			return fmt.Sprintf("List returned snapshot %s which was %sed, never closed", m.ID, r.spec.End)
		}
		if m.Index != r.spec.Index || m.Term != r.spec.Term {
			return fmt.Sprintf("snapshot %s listed with index/term %d/%d, created with %d/%d", m.ID, m.Index, m.Term, r.spec.Index, r.spec.Term)
		}
		_, rc, err := st.Open(m.ID)
		if m.ID == corrupted && corrupt == "state" {
			if err == nil {
				rc.Close()
				return fmt.Sprintf("snapshot %s has a flipped byte in its state file but Open succeeded", m.ID)
			}
			continue
		}
		if err != nil {
			return fmt.Sprintf("List returned snapshot %s but Open fails: %v", m.ID, err)
		}
		got, _ := io.ReadAll(rc)
		rc.Close()
		if !bytes.Equal(got, r.data) {
			return fmt.Sprintf("snapshot %s: Open returned %d bytes that differ from the %d bytes written", m.ID, len(got), len(r.data))
		}
		if m.Size != int64(len(r.data)) {
			return fmt.Sprintf("snapshot %s: meta size %d, written %d", m.ID, m.Size, len(r.data))
		}
	}
	if corrupt != "" {
		if corrupt != "state" && listed[corrupted] {
			return fmt.Sprintf("snapshot %s has a damaged meta.json but is listed", corrupted)
		}
		return ""
	}
	// durability: a snapshot whose Close had returned nil is listed, unless `retain` newer ones are
	for _, r := range runs {
		if r.closedAt < 0 || r.closedAt > p || listed[r.id] {
			continue
		}
		newerListed := 0
		for id := range listed {
			if newer(byID[id], r) {
				newerListed++
			}
		}
		if newerListed < h.Retain {
			return fmt.Sprintf("snapshot %s (term %d index %d): Close had returned nil before the crash, only %d newer snapshots are listed (retain %d), but List does not return it (listed: %v)", r.id, r.spec.Term, r.spec.Index, newerListed, h.Retain, keysOf(listed))
		}
	}
	return ""
}

func keysOf(m map[string]bool) []string {
	var out []string
	for k := range m {
		out = append(out, k)
	}
	sort.Strings(out)
	return out
}

func corruptNewest(img *vos.FS, kind string) string {
	snaps := img.Lookup(c15base + "/snapshots")
	if snaps == nil {
		return ""
	}
	var names []string
	for n, c := range snaps.Children {
		if c.IsDir && !strings.HasSuffix(n, ".tmp") && c.Children["meta.json"] != nil && c.Children["state.bin"] != nil {
			names = append(names, n)
		}
	}
	if len(names) == 0 {
		return ""
	}
	sort.Strings(names)
	n := names[len(names)-1]
	d := snaps.Children[n]
	switch kind {
	case "state":
		if len(d.Children["state.bin"].Data) == 0 {
			return ""
		}
		d.Children["state.bin"].Data[0] ^= 0x40
	case "meta-trunc":
		m := d.Children["meta.json"]
		m.Data = m.Data[:len(m.Data)/2]
	case "meta-garble":
		m := d.Children["meta.json"]
		for i := range m.Data {
			if i%3 == 0 {
				m.Data[i] = '#'
			}
		}
	}
	return n
}

func c15histories(tier string) []c15history {
	var out []c15history
	ti := [][2]uint64{{1, 5}, {2, 3}, {1, 9}} // (term,index) in non-monotone order
	sizes := []int{0, 5, 5000}
	ends := []string{"close", "cancel", "abandon"}
	for _, retain := range []int{1, 2} {
		for _, s0 := range sizes {
			for _, e0 := range ends {
				out = append(out, c15history{Retain: retain, Snaps: []snapSpec{{ti[0][0], ti[0][1], s0, e0}}})
				for _, e1 := range ends {
					for _, order := range [][2]int{{0, 1}, {1, 0}} {
						out = append(out, c15history{Retain: retain, Snaps: []snapSpec{
							{ti[order[0]][0], ti[order[0]][1], s0, e0}, {ti[order[1]][0], ti[order[1]][1], 7, e1}}})
					}
				}
			}
		}
	}
	{
		// every order of three snapshots x every way of ending each (quick: at most one not closed) x retain 1..3
		perms := [][3]int{{0, 1, 2}, {0, 2, 1}, {1, 0, 2}, {1, 2, 0}, {2, 0, 1}, {2, 1, 0}}
		for _, retain := range []int{1, 2, 3} {
			for _, perm := range perms {
				for _, e0 := range ends {
					for _, e1 := range ends {
						for _, e2 := range ends {
							e := [3]string{e0, e1, e2}
							notClosed := 0
							for _, x := range e {
								if x != "close" {
									notClosed++
								}
							}
							if tier != "thorough" && notClosed > 1 {
								continue
							}
							var ss []snapSpec
							for k := 0; k < 3; k++ {
								ss = append(ss, snapSpec{ti[perm[k]][0], ti[perm[k]][1], 9 + k, e[k]})
							}
							out = append(out, c15history{Retain: retain, Snaps: ss})
						}
					}
				}
			}
		}
	}
	if tier == "thorough" {
		// four snapshots, all closed, increasing and decreasing (term,index), retain 1..3: reaping of two at once
		ti4 := [][2]uint64{{1, 5}, {1, 9}, {2, 3}, {2, 11}}
		for _, retain := range []int{1, 2, 3} {
			for _, rev := range []bool{false, true} {
				for _, mid := range ends {
					var ss []snapSpec
					for k := 0; k < 4; k++ {
						j := k
						if rev {
							j = 3 - k
						}
						e := "close"
						if k == 2 {
							e = mid
						}
						ss = append(ss, snapSpec{ti4[j][0], ti4[j][1], 3 + k, e})
					}
					out = append(out, c15history{Retain: retain, Snaps: ss})
				}
			}
		}
	}
	return out
}

func enumC15(ctx *CheckCtx, shard, of int) *Stats {
	st := newStats()
	hs := c15histories(ctx.Tier)
	for hi, h := range hs {
		if of > 1 && hi%of != shard {
			continue
		}
		fs, runs, err := runHistory(h)
		if err != nil {
			st.Internal = "history failed: " + err.Error()
			return st
		}
		log := fs.Log
		// the durable baseline: the file system before the history (empty store)
		vos.Reset()
		if _, err := raft.NewFileSnapshotStoreWithLogger(c15base, h.Retain, hclog.NewNullLogger()); err != nil {
			st.Internal = err.Error()
			return st
		}
		base := vos.Cur
		base.Log = nil
		for p := 0; p <= len(log); p++ {
			dirOps, dirMin, datOps, datMin := analyse(log, p)
			// enumerate all combinations
			var dirs, files []int
			for d := range dirOps {
				dirs = append(dirs, d)
			}
			for f := range datOps {
				files = append(files, f)
			}
			sort.Ints(dirs)
			sort.Ints(files)
			dk, fk := map[int]int{}, map[int]int{}
			var rec func(i int) bool
			rec = func(i int) bool {
				if i < len(dirs) {
					d := dirs[i]
					for k := dirMin[d]; k <= len(dirOps[d]); k++ {
						dk[d] = k
						if rec(i + 1) {
							return true
						}
					}
					return false
				}
				j := i - len(dirs)
				if j < len(files) {
					f := files[j]
					for k := datMin[f]; k <= len(datOps[f]); k++ {
						fk[f] = k
						if rec(i + 1) {
							return true
						}
					}
					return false
				}
				for _, corrupt := range []string{"", "state", "meta-trunc", "meta-garble"} {
					if corrupt != "" && p != len(log) {
						continue // corruption variants on the final images only
					}
					img := materialise(base, log, p, dk, fk)
					st.Execs++
					st.Transitions++
					d := checkImage(img, h, runs, p, corrupt)
					st.Keys[hash64(fmt.Sprint(hi, p, dk, fk, corrupt))] = true
					if d != "" {
						c := c15case{Hist: h, Prefix: p, DirKeep: strKeys(dk), DatKeep: strKeys(fk), Corrupt: corrupt}
						sig := "crash-image"
						if corrupt != "" {
							sig = "corruption:" + corrupt
						}
						var ops []string
						for q := 0; q < p; q++ {
							ops = append(ops, fmt.Sprintf("%d:%s %s", q, log[q].Kind, strings.TrimPrefix(log[q].Path, c15base+"/snapshots/")))
						}
						v := Violation{Prop: "C15", Sig: sig, Msg: fmt.Sprintf("history %+v, crash after %d file-system operations (%s), surviving entry ops per directory %v, data ops per file %v: %s", h, p, strings.Join(ops, "; "), dk, fk, d)}
						if ctx.Known != nil && ctx.Known.Matches(v) {
							st.Known[v.Prop+" "+v.Sig]++
							continue
						}
						st.Violations = append(st.Violations, FoundViolation{Violation: v, Scenario: "enum-filesnapshot", Case: c})
						return true
					}
				}
				return false
			}
			if rec(0) {
				return st
			}
		}
		if len(st.Samples) < 2 && len(h.Snaps) == 2 {
			var ops []string
			for q, op := range log {
				ops = append(ops, fmt.Sprintf("%d:%s %s", q, op.Kind, strings.TrimPrefix(op.Path, c15base+"/snapshots/")))
			}
			b, _ := json.Marshal(map[string]any{"history": h, "fs_operation_log": ops})
			st.Samples = append(st.Samples, b)
		}
		st.Outcomes[fmt.Sprintf("history-%d-ops-%d", hi, len(log))]++
	}
	return st
}

func strKeys(m map[int]int) map[string]int {
	out := map[string]int{}
	for k, v := range m {
		out[fmt.Sprint(k)] = v
	}
	return out
}

func replayC15(m map[string]any) (string, bool) {
	b, _ := json.Marshal(m)
	var c c15case
	if err := json.Unmarshal(b, &c); err != nil {
		return err.Error(), false
	}
	fs, runs, err := runHistory(c.Hist)
	if err != nil {
		return err.Error(), false
	}
	log := fs.Log
	vos.Reset()
	raft.NewFileSnapshotStoreWithLogger(c15base, c.Hist.Retain, hclog.NewNullLogger())
	base := vos.Cur
	dk, fk := map[int]int{}, map[int]int{}
	for k, v := range c.DirKeep {
		var i int
		fmt.Sscan(k, &i)
		dk[i] = v
	}
	for k, v := range c.DatKeep {
		var i int
		fmt.Sscan(k, &i)
		fk[i] = v
	}
	img := materialise(base, log, c.Prefix, dk, fk)
	d := checkImage(img, c.Hist, runs, c.Prefix, c.Corrupt)
	return d, d != ""
}

func init() {
	enumReplays["enum-filesnapshot"] = replayC15
	register(&Check{Prop: "C15", Level: "fault_enumeration",
		Rule: "every history of <=2 snapshots, every order of 3 snapshots x every combination of endings (quick: at most one not closed) x retain 1..3 (thorough: also 4-snapshot histories) with (term,index) in every order, sizes 0 / 5 / 5000 bytes, retain 1 or 2, each ended by Close, Cancel or abandoned, is executed on the real FileSnapshotStore over an in-memory file system that logs every operation; for every prefix of that log and every combination of surviving not-yet-durable effects (per directory a prefix of its entry operations, per file a prefix of its data operations, never less than what fsync made durable) the crash image is opened by a fresh FileSnapshotStore; final images are also checked with a flipped state byte and with truncated / garbled meta.json; distinct = distinct (history, crash point, survival vector, corruption)",
		Assumptions: []string{"durability model: fsync(file) persists the file's data and its own directory entry; fsync(dir) persists the directory's earlier entry operations; per-directory and per-file effects reach the disk in order; rename is atomic; un-synced effects survive or not independently per directory and per file",
			"os is replaced by the in-memory file system only in file_snapshot.go (build-time overlay)"},
		Units: func(tier string) []Unit { return []Unit{{Name: "enum-filesnapshot", Enum: enumC15}} }})
}
