package main

import (
	"bufio"
	"encoding/json"
	"flag"
	"fmt"
	"os"
	"os/exec"
	"path/filepath"
	"runtime"
	"runtime/debug"
	"sort"
	"strconv"
	"strings"
	"sync"
	"time"
)

// ---------------------------------------------------------------------------
// known findings (committed file, never written at run time)

type KnownFinding struct {
	Property  string `json:"property"`
	Signature string `json:"signature"` // exact signature, or prefix ending in '*'
	What      string `json:"what"`
}

type KnownFindings struct {
	Findings []KnownFinding `json:"findings"`
	Fixed    []string       `json:"fixed"`
}

func loadKnown(dir string) *KnownFindings {
	k := &KnownFindings{}
	b, err := os.ReadFile(filepath.Join(dir, "known_findings.json"))
	if err != nil {
		return k
	}
	if err := json.Unmarshal(b, k); err != nil {
		fmt.Fprintf(os.Stderr, "INTERNAL: known_findings.json: %v\n", err)
		os.Exit(2)
	}
	return k
}

func (k *KnownFindings) find(prop, sig string) *KnownFinding {
	for i, f := range k.Findings {
		if f.Property != prop {
			continue
		}
		if f.Signature == sig || (strings.HasSuffix(f.Signature, "*") && strings.HasPrefix(sig, strings.TrimSuffix(f.Signature, "*"))) {
			return &k.Findings[i]
		}
	}
	return nil
}

func (k *KnownFindings) Matches(v Violation) bool { return k.find(v.Prop, v.Sig) != nil }

// ---------------------------------------------------------------------------

func verifDir() string {
	if d := os.Getenv("VERIF_DIR"); d != "" {
		return d
	}
	return "/verif"
}

type CheckCtx struct {
	Prop     string
	Tier     string
	Seed     int64
	Start    time.Time
	Deadline time.Time
	Known    *KnownFindings
	Procs    int
}

// Unit is one piece of work of a check: a scenario explored to a bound, or an enumerator.
type Unit struct {
	Name    string
	Sc      *Scenario
	Bound   int
	Enum    func(ctx *CheckCtx, shard, of int) *Stats // sequential enumerators
	NoSched bool                                      // the enumerator builds its own schedulers
	Budget  time.Duration
}

type Check struct {
	Prop        string
	Level       string
	Units       func(tier string) []Unit
	Rule        string
	Assumptions []string
}

var checks = map[string]*Check{}

func register(c *Check) {
	// Every check that explores cluster scenarios also runs EVERY registered scenario once on its default schedule
	// with its own oracle: a situation scripted for one property (a restore with calls in flight, a snapshot taken
	// while the FSM is busy, ...) is thereby seen by the oracles of all the others.
	inner := c.Units
	c.Units = func(tier string) []Unit {
		us := inner(tier)
		for _, u := range us {
			if u.Sc != nil {
				return append(us, Unit{Name: "every-scenario@0", Enum: enumEveryScenario, NoSched: true})
			}
		}
		return us
	}
	checks[c.Prop] = c
}

// enumEveryScenario: the default schedule (0 deviations) of every registered scenario, judged by ctx.Prop's oracle.
func enumEveryScenario(ctx *CheckCtx, shard, of int) *Stats {
	st := newStats()
	for i, name := range scenarioNames() {
		if of > 1 && i%of != shard {
			continue
		}
		if !ctx.Deadline.IsZero() && time.Now().After(ctx.Deadline) {
			st.Capped = true
			break
		}
		e := &Explorer{sc: scenarioByName(name), prop: ctx.Prop, bound: 0, stats: newStats(), maxViol: 3, replayEvery: 1, known: ctx.Known, deadline: ctx.Deadline}
		e.explore(nil, 0, 0)
		st.merge(e.stats)
		if st.Internal != "" {
			st.Internal = name + ": " + st.Internal
			break
		}
	}
	return st
}

func main() {
	debug.SetGCPercent(400)
	if len(os.Args) < 2 {
		fmt.Fprintln(os.Stderr, "usage: worker check|replay|shard|list ...")
		os.Exit(2)
	}
	switch os.Args[1] {
	case "check":
		os.Exit(cmdCheck(os.Args[2:]))
	case "shard":
		os.Exit(cmdShard(os.Args[2:]))
	case "replay":
		os.Exit(cmdReplay(os.Args[2:]))
	case "run":
		os.Exit(cmdRun(os.Args[2:]))
	case "list":
		var ids []string
		for id := range checks {
			ids = append(ids, id)
		}
		sort.Strings(ids)
		for _, id := range ids {
			fmt.Println(id)
			for _, u := range checks[id].Units("thorough") {
				fmt.Printf("   %s bound=%d\n", u.Name, u.Bound)
			}
		}
		os.Exit(0)
	}
	fmt.Fprintln(os.Stderr, "unknown command", os.Args[1])
	os.Exit(2)
}

// cmdRun: development helper: run one scenario once with a trace.
func cmdRun(args []string) int {
	fs := flag.NewFlagSet("run", flag.ExitOnError)
	name := fs.String("scenario", "", "scenario name")
	pre := fs.String("prefix", "", "comma separated choices")
	bound := fs.Int("bound", -1, "explore to this bound instead of a single run")
	prop := fs.String("prop", "", "only this property")
	quiet := fs.Bool("q", false, "no trace")
	seconds := fs.Int("seconds", 0, "with --bound: stop exploring after this many seconds and report what was covered")
	fs.Parse(args)
	currentProp = *prop
	sc := scenarioByName(*name)
	if sc == nil {
		fmt.Fprintln(os.Stderr, "unknown scenario; known:", strings.Join(scenarioNames(), " "))
		return 2
	}
	if *bound >= 0 {
		e := &Explorer{sc: sc, prop: *prop, bound: *bound, stats: newStats(), maxViol: 8, replayEvery: 50, known: loadKnown(verifDir())}
		t0 := time.Now()
		if *seconds > 0 {
			e.deadline = t0.Add(time.Duration(*seconds) * time.Second)
		}
		e.explore(nil, *bound, 0)
		fmt.Printf("execs=%d transitions=%d states=%d outcomes=%d endwhy=%v maxpoints=%d replays=%d wall=%v internal=%q\n", e.stats.Execs, e.stats.Transitions, len(e.stats.Keys),
			len(e.stats.Outcomes), e.stats.EndWhy, e.stats.MaxPoints, e.stats.Replays, time.Since(t0), e.stats.Internal)
		for _, v := range e.stats.Violations {
			fmt.Printf("VIOL %s [%s] %s\n   choices=%v\n", v.Prop, v.Sig, v.Msg, v.Choices)
		}
		return 0
	}
	var prefix []int
	if *pre != "" {
		for _, s := range strings.Split(*pre, ",") {
			k, _ := strconv.Atoi(strings.TrimSpace(s))
			prefix = append(prefix, k)
		}
	}
	t0 := time.Now()
	res := runOnce(sc, prefix, nil, !*quiet)
	for _, l := range res.Trace {
		fmt.Println(l)
	}
	fmt.Printf("end=%s events=%d points=%d steps=%d wall=%v internal=%q\n", res.EndWhy, res.Events, len(res.Points), res.Steps, time.Since(t0), res.Internal)
	for _, v := range res.Violations {
		fmt.Printf("VIOL %s [%s] %s\n", v.Prop, v.Sig, v.Msg)
	}
	return 0
}

// cmdShard runs one shard of one unit and prints its Stats as JSON on stdout.
func cmdShard(args []string) int {
	fs := flag.NewFlagSet("shard", flag.ExitOnError)
	prop := fs.String("prop", "", "")
	tier := fs.String("tier", "quick", "")
	unit := fs.Int("unit", 0, "")
	shard := fs.Int("shard", 0, "")
	of := fs.Int("of", 1, "")
	deadline := fs.Int64("deadline", 0, "unix seconds")
	fs.Parse(args)
	c := checks[*prop]
	if c == nil {
		return 2
	}
	currentProp = *prop
	units := c.Units(*tier)
	u := units[*unit]
	ctx := &CheckCtx{Prop: *prop, Tier: *tier, Known: loadKnown(verifDir())}
	if *deadline > 0 {
		ctx.Deadline = time.Unix(*deadline, 0)
	}
	var st *Stats
	if u.Enum != nil && u.NoSched {
		st = u.Enum(ctx, *shard, *of)
	} else if u.Enum != nil {
		if pm := withSched(func() { st = u.Enum(ctx, *shard, *of) }); pm != "" {
			if st == nil {
				st = newStats()
			}
			st.Internal = "enumerator " + u.Name + ": " + pm
		}
	} else {
		e := &Explorer{sc: u.Sc, prop: *prop, bound: u.Bound, stats: newStats(), shard: *shard, of: *of, maxViol: 3, replayEvery: 200, known: ctx.Known, deadline: ctx.Deadline}
		if *shard != 0 {
			// the root execution is accounted for by shard 0 only
			e.exploreChildrenOnly(u.Bound)
		} else {
			e.explore(nil, u.Bound, 0)
		}
		st = e.stats
	}
	for k := range st.Keys {
		st.KeyList = append(st.KeyList, k)
	}
	b, _ := json.Marshal(st)
	w := bufio.NewWriter(os.Stdout)
	w.Write(b)
	w.WriteString("\n")
	w.Flush()
	return 0
}

// exploreChildrenOnly: as explore(nil, bound) but without recording the root execution.
func (e *Explorer) exploreChildrenOnly(bound int) {
	saved := e.stats
	tmp := newStats()
	e.stats = tmp
	res := runOnce(e.sc, nil, nil, false)
	e.stats = saved
	if res.Internal != "" {
		e.stats.Internal = res.Internal
		return
	}
	idx := 0
	for i := 0; i < len(res.Points); i++ {
		p := res.Points[i]
		for alt := 1; alt < len(p.Labels); alt++ {
			c := p.Costs[alt]
			if c <= 0 {
				c = 1
			}
			if c > bound {
				continue
			}
			idx++
			if e.of > 1 && idx%e.of != e.shard {
				continue
			}
			np := make([]int, i+1)
			for j := 0; j < i; j++ {
				np[j] = res.Points[j].Chosen
			}
			np[i] = alt
			e.explore(np, bound-c, 1)
			if e.stop() {
				return
			}
		}
	}
}

func cmdCheck(args []string) int {
	if len(args) < 1 {
		fmt.Fprintln(os.Stderr, "usage: check <id> [--tier quick|thorough]")
		return 2
	}
	prop := args[0]
	fs := flag.NewFlagSet("check", flag.ExitOnError)
	tier := fs.String("tier", "", "quick|thorough")
	procs := fs.Int("procs", 0, "worker processes")
	fs.Parse(args[1:])
	if *tier == "" {
		*tier = os.Getenv("VERIF_TIER")
	}
	if *tier == "" {
		*tier = "quick"
	}
	c := checks[prop]
	if c == nil {
		fmt.Fprintf(os.Stderr, "no check for %s\n", prop)
		return 2
	}
	seed, _ := strconv.ParseInt(os.Getenv("VERIF_SEED"), 10, 64)
	ctx := &CheckCtx{Prop: prop, Tier: *tier, Seed: seed, Start: time.Now(), Known: loadKnown(verifDir()), Procs: *procs}
	if ctx.Procs <= 0 {
		ctx.Procs = runtime.NumCPU()
		if ctx.Procs > 16 {
			ctx.Procs = 16
		}
	}
	return runCheck(c, ctx)
}

type unitResult struct {
	Name  string
	Bound int
	St    *Stats
	Wall  float64
}

func runCheck(c *Check, ctx *CheckCtx) int {
	units := c.Units(ctx.Tier)
	var results []unitResult
	total := newStats()
	self, _ := os.Executable()
	// a check's units share 12 minutes (quick) or 30 minutes (thorough): each unit may use an equal share of what is
	// left when it starts (at least 30 s), so units that finish early leave their time to the later ones; the shallow
	// units (bound <= 1, enumerators) run first, the deep ones (bound >= 2) last. A unit that hits its share reports
	// time_cap_hit and the bound it completed.
	totalBudget := 12 * time.Minute
	if ctx.Tier == "thorough" {
		totalBudget = 30 * time.Minute
	}
	checkDeadline := time.Now().Add(totalBudget)
	order := make([]int, 0, len(units))
	for i, u := range units {
		if u.Bound < 2 {
			order = append(order, i)
		}
	}
	for i, u := range units {
		if u.Bound >= 2 {
			order = append(order, i)
		}
	}
	for oi, ui := range order {
		u := units[ui]
		t0 := time.Now()
		budget := u.Budget
		if budget == 0 {
			budget = time.Until(checkDeadline) / time.Duration(len(order)-oi)
			if budget < 30*time.Second {
				budget = 30 * time.Second
			}
		}
		deadline := time.Now().Add(budget)
		st := newStats()
		var mu sync.Mutex
		var wg sync.WaitGroup
		nsh := ctx.Procs
		if u.Bound <= 0 && u.Enum == nil {
			nsh = 1
		}
		for sh := 0; sh < nsh; sh++ {
			wg.Add(1)
			go func(sh int) {
				defer wg.Done()
				cmd := exec.Command(self, "shard", "--prop", c.Prop, "--tier", ctx.Tier, "--unit", strconv.Itoa(ui), "--shard", strconv.Itoa(sh), "--of", strconv.Itoa(nsh), "--deadline", strconv.FormatInt(deadline.Unix(), 10))
				cmd.Env = append(os.Environ(), "GOMAXPROCS=2")
				cmd.Stderr = os.Stderr
				out, err := cmd.Output()
				mu.Lock()
				defer mu.Unlock()
				if err != nil {
					if st.Internal == "" {
						st.Internal = fmt.Sprintf("shard %d of unit %s failed: %v", sh, u.Name, err)
					}
					return
				}
				var s Stats
				if err := json.Unmarshal(out, &s); err != nil {
					st.Internal = fmt.Sprintf("shard %d of unit %s: bad output: %v", sh, u.Name, err)
					return
				}
				st.merge(&s)
			}(sh)
		}
		wg.Wait()
		results = append(results, unitResult{Name: u.Name, Bound: u.Bound, St: st, Wall: time.Since(t0).Seconds()})
		total.merge(st)
		fmt.Printf("unit %-28s bound=%d execs=%d transitions=%d states=%d outcomes=%d capped=%v wall=%.1fs\n", u.Name, u.Bound, st.Execs, st.Transitions, len(st.Keys), len(st.Outcomes), st.Capped, time.Since(t0).Seconds())
		if st.Internal != "" {
			break
		}
	}
	return finishCheck(c, ctx, units, results, total)
}

func finishCheck(c *Check, ctx *CheckCtx, units []Unit, results []unitResult, total *Stats) int {
	vd := verifDir()
	currentProp = c.Prop
	if total.Internal != "" {
		fmt.Fprintf(os.Stderr, "INTERNAL: %s\n", total.Internal)
		return 2
	}
	// known findings
	var knownKeys []string
	for k := range total.Known {
		knownKeys = append(knownKeys, k)
	}
	sort.Strings(knownKeys)
	for _, k := range knownKeys {
		parts := strings.SplitN(k, " ", 2)
		what := ""
		if f := ctx.Known.find(parts[0], parts[1]); f != nil {
			what = f.What
		}
		fmt.Printf("KNOWN-FINDING: property=%s signature=%s (%d executions) %s\n", parts[0], parts[1], total.Known[k], what)
	}
	// confirm and report violations
	exit := 0
	seen := map[string]bool{}
	nviol := 0
	for _, v := range total.Violations {
		key := v.Prop + v.Sig + v.Scenario
		if seen[key] {
			continue
		}
		seen[key] = true
		rf := &ReplayFile{Property: v.Prop, Scenario: v.Scenario, Sig: v.Sig, Message: v.Msg, Choices: v.Choices, Labels: v.Labels, Kind: "schedule"}
		if sc := scenarioByName(v.Scenario); sc != nil {
			// re-execute 5 times before believing it
			ok := 0
			var last *ExecResult
			for i := 0; i < 5; i++ {
				r := runOnce(sc, v.Choices, v.Labels, i == 0)
				if i == 0 {
					last = r
				}
				for _, vv := range r.Violations {
					if vv.Prop == v.Prop && vv.Sig == v.Sig {
						ok++
						break
					}
				}
			}
			if ok != 5 {
				fmt.Fprintf(os.Stderr, "INTERNAL: violation %s [%s] reproduced only %d/5 times from %v\n", v.Prop, v.Sig, ok, v.Choices)
				return 2
			}
			rf.Trace = last.Trace
		} else if v.Case != nil {
			rf.Kind = "enum"
			rf.Case = v.Case
		}
		p := writeReplay(filepath.Join(vd, "replays"), rf)
		fmt.Printf("VIOLATION property=%s replay=%s\n", v.Prop, p)
		fmt.Printf("  signature: %s\n  scenario: %s\n  %s\n", v.Sig, v.Scenario, v.Msg)
		exit = 1
		nviol++
	}
	writeEvidence(c, ctx, units, results, total, nviol)
	fmt.Printf("%s %s: %d executions, %d transitions, %d distinct states, %d outcomes, %d violations, %.1fs\n", c.Prop, ctx.Tier, total.Execs, total.Transitions, len(total.Keys), len(total.Outcomes), nviol, time.Since(ctx.Start).Seconds())
	return exit
}

func writeEvidence(c *Check, ctx *CheckCtx, units []Unit, results []unitResult, total *Stats, nviol int) {
	vd := verifDir()
	os.MkdirAll(filepath.Join(vd, "evidence"), 0o755)
	type unitEv struct {
		Name        string         `json:"unit"`
		Bound       int            `json:"deviation_bound"`
		Execs       int            `json:"executions"`
		Transitions int            `json:"transitions"`
		States      int            `json:"distinct_states"`
		Outcomes    int            `json:"distinct_outcomes"`
		EndWhy      map[string]int `json:"end_reasons"`
		PerLevel    map[int]int    `json:"executions_per_deviation_level"`
		Capped      bool           `json:"time_cap_hit"`
		Replays     int            `json:"replays_compared"`
		Wall        float64        `json:"wall_s"`
	}
	var ues []unitEv
	exhaustive := true
	for _, r := range results {
		ues = append(ues, unitEv{r.Name, r.Bound, r.St.Execs, r.St.Transitions, len(r.St.Keys), len(r.St.Outcomes), r.St.EndWhy, r.St.PerLevel, r.St.Capped, r.St.Replays, r.Wall})
		if r.St.Capped {
			exhaustive = false
		}
	}
	if len(results) < len(units) {
		exhaustive = false
	}
	samples := total.Samples
	if len(samples) == 0 {
		samples = append(samples, json.RawMessage(`"(no sample recorded)"`))
	}
	known := []string{}
	for k, n := range total.Known {
		known = append(known, fmt.Sprintf("%s (%d executions)", k, n))
	}
	sort.Strings(known)
	states := len(total.Keys)
	if states == 0 {
		states = len(total.Outcomes)
	}
	cov := map[string]any{
		"states":                        states,
		"transitions":                   total.Transitions,
		"traces_validated_against_impl": total.Execs,
		"evaluations":                   total.Execs,
		"distinct_nontrivial":           len(total.Outcomes),
		"rule":                          c.Rule,
		"samples":                       samples,
		"exhaustive":                    exhaustive,
		"units":                         ues,
		"replays_compared":              total.Replays,
		"known_findings_seen":           known,
		"explanation":                   "every explored trace is an execution of the real package raft under the cooperative scheduler (no separate model), so each execution is an implementation trace; 'states' counts distinct abstract global states observed at quiescent points (vacuity indicator, never used for pruning)",
	}
	ev := map[string]any{
		"property_id": c.Prop,
		"tier":        ctx.Tier,
		"seed":        ctx.Seed,
		"level":       c.Level,
		"coverage":    cov,
		"assumptions": c.Assumptions,
		"wall_s":      time.Since(ctx.Start).Seconds(),
		"violations":  nviol,
	}
	b, _ := json.MarshalIndent(ev, "", " ")
	os.WriteFile(filepath.Join(vd, "evidence", c.Prop+".json"), b, 0o644)
}

func cmdReplay(args []string) int {
	if len(args) < 1 {
		fmt.Fprintln(os.Stderr, "usage: replay <file>")
		return 2
	}
	b, err := os.ReadFile(args[0])
	if err != nil {
		fmt.Fprintln(os.Stderr, err)
		return 2
	}
	var rf ReplayFile
	if err := json.Unmarshal(b, &rf); err != nil {
		fmt.Fprintln(os.Stderr, err)
		return 2
	}
	if rf.Kind == "enum" {
		return replayEnum(&rf)
	}
	sc := scenarioByName(rf.Scenario)
	if sc == nil {
		fmt.Fprintln(os.Stderr, "unknown scenario", rf.Scenario)
		return 2
	}
	currentProp = rf.Property
	res := runOnce(sc, rf.Choices, rf.Labels, true)
	for _, l := range res.Trace {
		fmt.Println(l)
	}
	if res.Internal != "" {
		fmt.Fprintln(os.Stderr, "INTERNAL:", res.Internal)
		return 2
	}
	found := false
	for _, v := range res.Violations {
		fmt.Printf("VIOLATION property=%s replay=%s\n  [%s] %s\n", v.Prop, args[0], v.Sig, v.Msg)
		if v.Prop == rf.Property {
			found = true
		}
	}
	if found {
		return 1
	}
	fmt.Println("no violation of", rf.Property, "on replay")
	return 0
}
