package main

func clusterUnits(tier string, quick, thorough []Unit) []Unit {
	if tier == "thorough" {
		return thorough
	}
	return quick
}

func scUnit(name string, bound int) Unit {
	return Unit{Name: name, Sc: scenarioByName(name), Bound: bound}
}

const clusterRule = "deviation-bounded DFS over environment decisions (message delivery/loss/duplication/reordering, timer order, crashes, storage faults, scripted client steps) of the real package raft under a cooperative scheduler; a case is one complete execution; non-trivial/distinct = distinct final outcome (end reason, per-server role/term/commit, per-call result, violation set)"

var clusterAssumptions = []string{
	"cooperative scheduler: thread steps inside one server follow a fixed order between two environment events (coarse mode); plain data races are out of scope",
	"bounded: servers, client calls, horizon and deviation bound as listed per unit",
	"stores and transport are harness implementations honouring the LogStore/StableStore/SnapshotStore/Transport contracts",
}

func init() {
	register(&Check{Prop: "C01", Level: "model_checking", Rule: clusterRule, Assumptions: clusterAssumptions, Units: func(tier string) []Unit {
		return clusterUnits(tier,
			[]Unit{scUnit("elect3", 1), scUnit("elect2", 1), scUnit("write3", 1), scUnit("crash3", 1)},
			[]Unit{scUnit("elect3", 2), scUnit("elect2", 2), scUnit("elect5", 1), scUnit("write3", 2), scUnit("crash3", 2)})
	}})
}

func replayEnum(rf *ReplayFile) int { return 2 }
