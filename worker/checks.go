package main

import (
	"fmt"
	"os"
	"sort"
	"strings"
)

func scUnit(name string, bound int) Unit {
	sc := scenarioByName(name)
	if sc == nil {
		panic("unknown scenario " + name)
	}
	return Unit{Name: name, Sc: sc, Bound: bound}
}

func scUnits(bound int, names ...string) []Unit {
	var out []Unit
	for _, n := range names {
		out = append(out, scUnit(n, bound))
	}
	return out
}

const clusterRule = "deviation-bounded DFS over environment decisions (message delivery/loss/duplication/reordering, timer order, crashes, storage faults, scripted client steps) of the real package raft under a cooperative scheduler; a case is one complete execution; non-trivial/distinct = distinct final outcome (end reason, per-server role/term/commit, per-call result, violation set)"

var clusterAssumptions = []string{
	"cooperative scheduler: thread steps inside one server follow a fixed order between two environment events (coarse mode); plain data races are out of scope",
	"bounded: servers, client calls, horizon and deviation bound as listed per unit",
	"stores and transport are harness implementations honouring the LogStore/StableStore/SnapshotStore/Transport contracts",
}

func clusterCheck(prop string, quick, thorough func() []Unit) {
	register(&Check{Prop: prop, Level: "model_checking", Rule: clusterRule, Assumptions: clusterAssumptions, Units: func(tier string) []Unit {
		if tier == "thorough" {
			us := withInjection(thorough(), 10, 0)
			// bound 1 with every deviation class; bound 2 without the two classes added last (select choices, store
			// stalls): their pairs with every other deviation could not be run to completion on the unchanged tree
			// within the session that added them (see DESIGN 11.9), so they are not part of a registered command
			var shallow []Unit
			for i := range us {
				if us[i].Sc != nil && us[i].Bound >= 2 && !us[i].Sc.Fine {
					shallow = append(shallow, scUnit(us[i].Name, 1))
					us[i].Sc.Devs &^= DevSelect | DevStall
				}
			}
			us = append(us, shallow...)
			us = append(us, feUnits(1)...)
			us = append(us, feUnits(2, "fe-stepdown3")...)
			us = append(us, scUnit("stall-deposed3", 2))
			return append(us, extraInj(prop, us)...)
		}
		us := append(withInjection(quick(), 6, 0), feUnits(1)...)
		us = append(us, scUnit("stall-deposed3", 2))
		us = append(us, extraInj(prop, us)...)
		if prop == "C08" {
			us = append(us, feUnits(2, "fe-stepdown3")...)
		}
		return us
	}})
}

// withInjection adds, for the first n1 coarse untimed scenarios of a check, the unit "<scenario>+inj" at bound 1
// (one unscripted public-API call or isolation at any quiescent instant, see inject.go) and for the first n2 of
// them the same at bound 2 (two such operations).
func withInjection(us []Unit, n1, n2 int) []Unit {
	out := us
	seen := map[string]bool{}
	k := 0
	// scenarios with membership changes, snapshots and leader changes first: they give the injected operation most to disturb
	pref := map[string]int{"member": 1, "snap3": 2, "crash3": 3, "stale-suffix": 4, "transfer": 5, "write3": 6, "snap3-trail1": 7, "fig8": 8}
	sorted := append([]Unit{}, us...)
	sort.SliceStable(sorted, func(i, j int) bool {
		pi, pj := pref[sorted[i].Name], pref[sorted[j].Name]
		if pi == 0 {
			pi = 100
		}
		if pj == 0 {
			pj = 100
		}
		return pi < pj
	})
	for _, u := range sorted {
		if u.Sc == nil || u.Sc.Fine || u.Sc.Timed || u.Bound < 1 || seen[u.Name] || strings.HasPrefix(u.Name, "fe-") {
			continue
		}
		seen[u.Name] = true
		if k < n1 {
			out = append(out, scUnit(u.Name+"+inj", 1))
		}
		if k < n2 {
			out = append(out, scUnit(u.Name+"+inj", 2))
		}
		k++
	}
	return out
}

// extraInj: injection units in which a defect of this property was found (and repaired) in a scenario that is not
// among the check's own: they stay in the check so that the defect is reported again if it ever returns.
func extraInj(prop string, have []Unit) []Unit {
	want := map[string][]string{
		"C09": {"member+inj"},                           // f1bc445: a leader that is removing itself counted its own vote
		"C07": {"snap3-dup-is+inj"},                     // 3449d62: late snapshot vs. newer configuration in the retained log
		"C11": {"snap3-dup-is+inj", "stale-suffix+inj"}, // a7cd8ee, 8ea430b
		"C02": {"snap3-dup-is+inj"},
		"C12": {"stale-suffix+inj"},
	}[prop]
	var out []Unit
	for _, n := range want {
		dup := false
		for _, u := range have {
			if u.Name == n {
				dup = true
			}
		}
		if !dup {
			out = append(out, scUnit(n, 1))
		}
	}
	return out
}

// feUnits: the FineEnv scenarios (scen_fe.go) at the given bound.
func feUnits(bound int, names ...string) []Unit {
	if len(names) == 0 {
		names = []string{"fe-write3", "fe-elect3", "fe-stepdown3", "fe-depose-ack3", "fe-transfer3", "fe-addvoter3"}
	}
	return scUnits(bound, names...)
}

func cat(us ...[]Unit) []Unit {
	var out []Unit
	for _, u := range us {
		out = append(out, u...)
	}
	return out
}

func init() {
	clusterCheck("C01",
		func() []Unit {
			return scUnits(1, "elect3", "elect2", "write3", "crash3", "majority-restart", "transfer", "member", "fig8", "revote3", "crash4", "elect3-hb", "crash3-hb", "transfer-nonvoter1", "transfer-nonvoter3")
		},
		func() []Unit {
			return cat(scUnits(2, "elect3", "elect2", "write3", "crash3", "majority-restart", "transfer", "member", "member-race", "fig8", "revote3", "crash4", "member-sor", "elect3-hb", "crash3-hb", "transfer-hb", "transfer-nonvoter1", "transfer-nonvoter3"), scUnits(1, "elect5"))
		})
	clusterCheck("C02",
		func() []Unit {
			return scUnits(1, "write3", "write3-pipe", "crash3", "snap3", "snap3-pipe", "snap3-trail1", "snap3-mono", "stale-suffix", "majority-restart", "member", "rcl3-snap", "autosnap3", "batch-mix", "batch-mix-cfgstore", "fig8", "fig8-batch1", "fig8-paper", "snap3-storefail")
		},
		func() []Unit {
			return scUnits(2, "write3", "write3-pipe", "crash3", "snap3", "snap3-pipe", "snap3-trail1", "snap3-mono", "stale-suffix", "majority-restart", "member", "fig8", "fig8-batch1", "fig8-paper", "transfer", "batch-mix", "batch-lag", "autosnap3", "snap3-storefail")
		})
	clusterCheck("C03",
		func() []Unit {
			return scUnits(1, "write3", "crash3", "crash3-pipe", "fig8", "fig8-batch1", "fig8-paper", "majority-restart", "stale-suffix", "transfer", "member")
		},
		func() []Unit {
			return scUnits(2, "write3", "crash3", "crash3-pipe", "fig8", "fig8-batch1", "fig8-paper", "majority-restart", "stale-suffix", "transfer", "member", "member-race", "snap3")
		})
	clusterCheck("C04",
		func() []Unit {
			return append([]Unit{{Name: "enum-appendentries", Enum: enumC04}}, scUnits(1, "write3", "write3-pipe", "write3-inmem", "crash3", "fig8", "stale-suffix", "stale-suffix-batch1", "stale-suffix-pipe", "stale-suffix-inmem", "stale-suffix-trail", "stale-suffix-config", "snap3", "majority-restart")...)
		},
		func() []Unit {
			return append([]Unit{{Name: "enum-appendentries", Enum: enumC04}}, scUnits(2, "write3", "write3-pipe", "write3-inmem", "crash3", "fig8", "stale-suffix", "stale-suffix-batch1", "stale-suffix-pipe", "stale-suffix-inmem", "stale-suffix-trail", "snap3", "snap3-mono", "majority-restart", "member")...)
		})
	clusterCheck("C05",
		func() []Unit {
			return append([]Unit{{Name: "enum-commitment", Enum: enumC05}}, cat(scUnits(1, "write3", "write4", "crash3", "crash4", "member", "member-race", "fig8", "fig8-batch1", "transfer"), scUnits(0, "member-trunc6"))...)
		},
		func() []Unit {
			return append([]Unit{{Name: "enum-commitment", Enum: enumC05}}, scUnits(2, "write3", "write4", "crash3", "crash4", "member", "member-race", "fig8", "fig8-batch1", "transfer", "snap3")...)
		})
	clusterCheck("C07",
		func() []Unit {
			return append([]Unit{{Name: "enum-nextconfiguration", Enum: enumC07}}, scUnits(1, "member", "member-race", "member-trunc5", "member-trunc5-snap", "member-sor", "member-early", "transfer", "rcl3-after")...)
		},
		func() []Unit {
			return append([]Unit{{Name: "enum-nextconfiguration", Enum: enumC07}}, scUnits(2, "member", "member-race", "member-trunc5", "member-trunc5-snap", "member-sor", "member-early", "transfer", "crash3", "rcl3-after")...)
		})
	clusterCheck("C08",
		func() []Unit {
			return cat(scUnits(1, "write3", "write3-slowfsm", "write3-pipe", "crash3", "crash3-slowfsm", "transfer", "transfer-pipe", "majority-restart", "batch-mix", "batch-mix-plain", "batch-mix-slowfsm", "batch-mix2", "batch-mix2-slowfsm", "batch-mix2-plain-slowfsm", "batch-lag", "batch-lag-plain", "batch-lag-slowfsm"), scUnits(2, "apply-fine1", "apply-fine1-batching", "apply-fine1-storeerr", "apply-fine1-batching-storeerr"))
		},
		func() []Unit {
			return cat(scUnits(2, "write3", "write3-slowfsm", "write3-pipe", "crash3", "crash3-slowfsm", "transfer", "transfer-slowfsm", "transfer-pipe", "majority-restart", "fig8", "batch-mix", "batch-mix-plain", "batch-mix-cfgstore", "batch-mix-slowfsm", "batch-mix2", "batch-mix2-slowfsm", "batch-mix2-plain-slowfsm", "batch-lag", "batch-lag-plain", "batch-lag-slowfsm"), scUnits(3, "apply-fine1", "apply-fine1-batching", "apply-fine1-storeerr", "apply-fine1-batching-storeerr"))
		})
	clusterCheck("C10",
		func() []Unit {
			return scUnits(1, "write3", "crash3", "majority-restart", "member", "snap3", "snap3-mono", "snap3-inmem", "crash3-inmem", "majority-restart-inmem", "stale-suffix-batch1", "snap-member-slowfsm", "revote3", "rcl1", "rcl3", "rcl3-snap", "rcl1-many", "rcl1-130", "rcl1-after", "rcl3-after")
		},
		func() []Unit {
			return scUnits(2, "write3", "crash3", "majority-restart", "member", "snap3", "snap3-mono", "snap3-inmem", "crash3-inmem", "majority-restart-inmem", "stale-suffix", "snap-member-slowfsm", "revote3", "rcl1", "rcl3", "rcl3-snap", "rcl1-many", "rcl1-130", "rcl1-after", "rcl3-after")
		})
	clusterCheck("C11",
		func() []Unit {
			return append([]Unit{{Name: "enum-compaction", Enum: enumC11}}, scUnits(1, "snap3", "snap3-trail1", "snap3-mono", "stale-suffix", "stale-suffix-trail", "member", "snap-member-slowfsm", "autosnap3", "rcl3-snap", "rcl1-many", "rcl1-after", "rcl3-after", "snap3-dup-is", "snap3-trail1-dup-is", "snap3-storefail")...)
		},
		func() []Unit {
			return append([]Unit{{Name: "enum-compaction", Enum: enumC11}}, scUnits(2, "snap3", "snap3-trail1", "snap3-mono", "stale-suffix", "stale-suffix-trail", "member", "snap-member-slowfsm", "autosnap3", "crash3", "rcl3-snap", "rcl1-many", "rcl1-after", "rcl3-after", "snap3-dup-is", "snap3-trail1-dup-is")...)
		})
	timedAssumptions := []string{
		"timed regime: virtual clock, timers fire strictly in deadline order, thread steps and message delivery take no virtual time",
		"HeartbeatTimeout = ElectionTimeout = LeaderLeaseTimeout = 100ms, CommitTimeout 50ms; per-server timeout jitter fixed and pairwise distinct (deviation: close to the maximum)",
		"the instant of the fault is chosen by the explorer among all quiescent points with a stable leader (one instant per execution)",
	}
	timedRule := "deviation-bounded DFS in the timed regime: the root execution performs the scripted fault at its default instant; every alternative performs it at another quiescent instant (or changes one timeout jitter); a case is one complete execution; distinct = distinct final outcome"
	register(&Check{Prop: "C13", Level: "model_checking", Rule: timedRule, Assumptions: timedAssumptions, Units: func(tier string) []Unit {
		if tier == "thorough" {
			return scUnits(1, "lease3", "lease3-b", "lease2nv", "lease3-busy", "quiet3", "quiet-addvoter-slow")
		}
		return cat(scUnits(1, "lease3", "lease2nv", "lease3-busy", "quiet-addvoter-slow"), []Unit{{Name: "quiet3", Sc: scenarioByName("quiet3"), Bound: 1, Budget: 0}})
	}})
	register(&Check{Prop: "C14", Level: "model_checking", Rule: timedRule, Assumptions: timedAssumptions, Units: func(tier string) []Unit {
		if tier == "thorough" {
			return scUnits(1, "prevote3-1", "prevote3-5", "prevote3-20", "prevote3-leader", "prevote5-5", "prevote3-mixed", "prevote5-pair", "prevote4-demoted", "prevote3-transfer")
		}
		return append(scUnits(1, "prevote3-1", "prevote3-5", "prevote3-leader", "prevote3-mixed"), scUnit("prevote5-pair", 0), scUnit("prevote4-demoted", 0), scUnit("prevote3-transfer", 1))
	}})
	fineRule := "deviation-bounded DFS where, from the scripted race on, every select / lock / wait of every thread is a branching point (preemptions, alternative ready select cases and free scheduling choices each cost one deviation); a case is one complete execution; distinct = distinct final outcome"
	fineAssumptions := []string{
		"2 voters; one client thread issuing the call, one calling Shutdown() and then the same call again; buffered (BatchApplyCh) and unbuffered apply channel",
		"preemption/choice bound 1 (quick) or 2 (thorough) after the race starts; before it the default schedule is followed",
		"a caller is stranded when nothing at all is enabled any more, or when its server is shut down and none of the server's threads is left",
	}
	register(&Check{Prop: "C17", Level: "model_checking", Rule: fineRule, Assumptions: fineAssumptions, Units: func(tier string) []Unit {
		b := 1
		if tier == "thorough" {
			b = 2
		}
		var us []Unit
		for _, k := range shutdownKinds {
			us = append(us, scUnit("shutdown-"+k, b))
			if k == "apply" || k == "barrier" || k == "verify" || k == "restore" || tier == "thorough" {
				us = append(us, scUnit("shutdown-"+k+"-batch", b))
			}
		}
		us = append(us, feUnits(1, "fe-stepdown3", "fe-depose-ack3", "fe-transfer3", "fe-addvoter3")...)
		if tier == "thorough" {
			us = append(us, feUnits(2, "fe-stepdown3")...)
		}
		us = append(us, scUnit("stall-deposed3", 2))
		us = append(us, scUnit("stepdown-calls", b), scUnit("verify-deposed", 1), scUnit("rcl1-after", 1), scUnit("rcl3-after", 1), scUnit("restore3-inflight", 1), scUnit("lease2nv-live", 0))
		if tier == "thorough" {
			us = append(us, scUnits(1, "write3", "crash3", "transfer", "member")...)
		}
		return us
	}})
	register(&Check{Prop: "C12", Level: "model_checking",
		Rule:        "deviation-bounded DFS over the fault phase of each scenario (message loss/duplication/reordering, timer order, crashes, storage faults, early client steps); when the script ends the faults stop (partitions healed, crashed servers restarted - except in promote-cut, where the old leader stays down and three of four voters remain - no further deviations) and the run continues in the timed regime with pairwise distinct timeout jitter; the bound of 10 election timeouts of virtual time is checked on every execution; distinct = distinct final outcome",
		Assumptions: append([]string{"quiet phase: timed regime, zero message latency, distinct per-server jitter (two permutations); bound 10 x ElectionTimeout = 1s of virtual time"}, clusterAssumptions...),
		Units: func(tier string) []Unit {
			if tier == "thorough" {
				us := cat(scUnits(2, "conv-crash3", "conv-snap3", "conv-stale-suffix", "conv-majority-restart"), scUnits(1, "conv-crash3", "conv-snap3", "conv-stale-suffix", "conv-majority-restart", "conv-promote-cut", "conv-snap3-mono", "conv-member", "conv-fig8", "conv-restore3-lagging", "conv-transfer", "conv2-crash3", "conv2-snap3", "conv2-stale-suffix", "conv2-member", "conv2-promote-cut", "conv-term-gap", "conv2-term-gap"), scUnits(2, "conv-promote-cut"))
				for i := range us {
					if us[i].Bound >= 2 {
						us[i].Sc.Devs &^= DevSelect | DevStall // as in clusterCheck: pairs with the two newest deviation classes are not registered
					}
				}
				return us
			}
			return scUnits(1, "conv-crash3", "conv-snap3", "conv-snap3-mono", "conv-stale-suffix", "conv-member", "conv-majority-restart", "conv-restore3-lagging", "conv-promote-cut", "conv-term-gap")
		}})
	clusterCheck("C18",
		func() []Unit { return scUnits(1, "notify3", "notify3-back") },
		func() []Unit { return scUnits(2, "notify3", "notify3-back") })
	clusterCheck("C09",
		func() []Unit {
			return scUnits(1, "verify-nonvoter", "verify3", "verify5-pair", "verify-stale-ack", "verify-deposed", "verify-addvoter", "verify-demoted")
		},
		func() []Unit {
			return scUnits(2, "verify-nonvoter", "verify3", "verify5-pair", "verify-stale-ack", "verify-deposed", "verify-addvoter", "verify-demoted")
		})
	clusterCheck("C20",
		func() []Unit {
			return scUnits(1, "restore3-below", "restore3-equal", "restore3-above", "restore3-mono-below", "restore3-mono-above", "restore3-lagging", "restore3-inflight", "restore-refused")
		},
		func() []Unit {
			return scUnits(2, "restore3-below", "restore3-equal", "restore3-above", "restore3-mono-below", "restore3-mono-above", "restore3-lagging", "restore3-inflight", "restore-refused")
		})
}

var enumReplays = map[string]func(c map[string]any) (string, bool){}

func replayEnum(rf *ReplayFile) int {
	f := enumReplays[rf.Scenario]
	if f == nil {
		fmt.Fprintln(os.Stderr, "no replayer for", rf.Scenario)
		return 2
	}
	c, _ := rf.Case.(map[string]any)
	msg, bad := f(c)
	if bad {
		fmt.Printf("VIOLATION property=%s replay=(case)\n  %s\n", rf.Property, msg)
		return 1
	}
	fmt.Println("no violation on replay")
	return 0
}
