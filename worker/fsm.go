package main

import (
	"encoding/json"
	"fmt"
	"io"

	"github.com/hashicorp/raft"
	"github.com/hashicorp/raft/zzverif/vsched"
)

// FSMKind selects the optional FSM interfaces.
type FSMKind int

const (
	FSMPlain FSMKind = iota
	FSMBatching
	FSMConfigStore // plain + configuration store
)

func (k FSMKind) String() string { return [...]string{"plain", "batching", "configstore"}[k] }

// Applied is one record of the state of a VFSM: the exact entry it was given.
type Applied struct {
	Index uint64 `json:"i"`
	Term  uint64 `json:"t"`
	Type  uint8  `json:"y"`
	Data  string `json:"d"`
}

func (a Applied) String() string { return fmt.Sprintf("%d/%d/%d/%s", a.Index, a.Term, a.Type, a.Data) }

type FSMHooks interface {
	OnApply(node, inc int, a Applied, batch bool)
	OnRestore(node, inc int, content []Applied, raw []byte)
	OnFSMSnapshot(node, inc int, content []Applied)
}

// VFSM records everything it is given. Its state (and snapshot content) is the
// exact list of applied entries, so a restore can be compared with the agreed history.
type VFSM struct {
	node, inc int
	hooks     FSMHooks
	State     []Applied
	Restores  int
	// Slow: every application waits for a permit of the environment (a slow, e.g. disk-backed, FSM).
	Slow    bool
	Permits int
	Asked   int
}

type FSMResp struct {
	Index uint64
	Data  string
}

func (f *VFSM) apply(l *raft.Log, batch bool) interface{} {
	if f.Slow && !vsched.Killed() {
		f.Asked++
		n := f.Asked
		vsched.WaitAlways("fsm-permit", func() bool { return f.Permits >= n })
	}
	a := Applied{Index: l.Index, Term: l.Term, Type: uint8(l.Type), Data: string(l.Data)}
	f.State = append(f.State, a)
	if f.hooks != nil {
		f.hooks.OnApply(f.node, f.inc, a, batch)
	}
	return FSMResp{Index: l.Index, Data: string(l.Data)}
}

func (f *VFSM) Apply(l *raft.Log) interface{} { return f.apply(l, false) }

type fsmSnap struct {
	data []byte
}

func (s *fsmSnap) Persist(sink raft.SnapshotSink) error {
	if _, err := sink.Write(s.data); err != nil {
		sink.Cancel()
		return err
	}
	return sink.Close()
}
func (s *fsmSnap) Release() {}

func (f *VFSM) Snapshot() (raft.FSMSnapshot, error) {
	b, _ := json.Marshal(f.State)
	if f.hooks != nil {
		f.hooks.OnFSMSnapshot(f.node, f.inc, append([]Applied(nil), f.State...))
	}
	return &fsmSnap{data: b}, nil
}

func (f *VFSM) Restore(rc io.ReadCloser) error {
	b, err := io.ReadAll(rc)
	if err != nil {
		return err
	}
	var st []Applied
	if len(b) > 0 {
		if err := json.Unmarshal(b, &st); err != nil {
			// user-supplied raw snapshot (C20): keep it as one opaque record
			st = []Applied{{Type: 255, Data: string(b)}}
		}
	}
	f.State = st
	f.Restores++
	if f.hooks != nil {
		f.hooks.OnRestore(f.node, f.inc, append([]Applied(nil), st...), b)
	}
	return nil
}

type batchFSM struct{ *VFSM }

func (b batchFSM) ApplyBatch(logs []*raft.Log) []interface{} {
	out := make([]interface{}, len(logs))
	for i, l := range logs {
		out[i] = b.apply(l, true)
	}
	return out
}

type cfgFSM struct{ *VFSM }

func (c cfgFSM) StoreConfiguration(index uint64, configuration raft.Configuration) {
	a := Applied{Index: index, Type: 100, Data: fmt.Sprintf("%v", configuration.Servers)}
	if c.hooks != nil {
		c.hooks.OnApply(c.node, c.inc, a, false)
	}
}

func (f *VFSM) AsFSM(k FSMKind) raft.FSM {
	switch k {
	case FSMBatching:
		return batchFSM{f}
	case FSMConfigStore:
		return cfgFSM{f}
	}
	return f
}

type appliedJSON struct {
	I uint64 `json:"i"`
	T uint64 `json:"t"`
	Y uint8  `json:"y"`
	D []byte `json:"d"`
}

func (a Applied) MarshalJSON() ([]byte, error) {
	return json.Marshal(appliedJSON{a.Index, a.Term, a.Type, []byte(a.Data)})
}

func (a *Applied) UnmarshalJSON(b []byte) error {
	var x appliedJSON
	if err := json.Unmarshal(b, &x); err != nil {
		return err
	}
	*a = Applied{Index: x.I, Term: x.T, Type: x.Y, Data: string(x.D)}
	return nil
}
