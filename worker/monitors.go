package main

import (
	"encoding/json"
	"fmt"
	"regexp"
	"sort"
	"strings"

	"github.com/hashicorp/raft"
	"github.com/hashicorp/raft/zzverif/vsched"
)

// Violation: Prop is the property id, Sig a stable signature naming the failing
// class (used by known_findings.json), Msg the details.
type Violation struct {
	Prop string `json:"property"`
	Sig  string `json:"signature"`
	Msg  string `json:"message"`
}

type fact struct {
	e   Applied
	src string
	ct  uint64 // lowest term of a server reporting it committed (0 = unknown)
}

type fsmStream struct {
	node, inc int
	last      uint64 // last index delivered (or snapshot index after a restore)
	started   bool
}

type grantKey struct {
	node int
	term uint64
}

type Monitors struct {
	w         *World
	viol      []Violation
	keepGoing bool
	keys      []uint64

	// ground truth
	agreed       map[uint64]fact // first committed fact per index
	maxCommitted uint64
	leaders      map[uint64]int // term -> node observed as leader
	senders      map[uint64]int // term -> node sending AE/IS as leader
	streams      map[[2]int]*fsmStream
	lastCommit   map[[2]int]uint64 // per incarnation: last CommitIndex seen
	lastTerm     map[int]uint64    // per node: last CurrentTerm seen (across restarts)
	grants       map[grantKey]string
	grantInc     map[grantKey]int
	cfgIdx       map[int][]uint64 // per node: indexes of configuration entries in durable log (maintained lazily)
	serverPanics []string
	notify       map[[2]int][]bool
	leadGains    map[[2]int]int
	storedIDs    map[string]bool // payload ids ever stored on any server
	taint        string
	lease        *leaseState
	reported     map[int][3]uint64 // per node: last index, last term, current term reported at the latest quiescent point
	reportedCfg  map[int]string    // per node: latest configuration reported at the latest quiescent point
	electCommit  map[[2]int]uint64 // commit index of a server at the instant it became leader
	convFlagged  bool
	convWriteOK  bool
	convReached  bool
	isSeen       map[string]*isRec
	restores     []*restoreRec
	restoreFloor map[[2]int]uint64
	floorByData  map[string]uint64
	acks         []ackRec
	leaderAt     map[uint64]leaderRec
	transitions  map[[2]int]int // leadership gains + losses per incarnation (observer)
	wasLeader    map[[2]int]bool
	prevote      *prevoteState
	prevote2     *prevoteState
	// per (node, incarnation, index of a configuration entry appended by that leader): commitment index at the append
	cfgAppendCommit map[[3]uint64]uint64
	verifyCfg       map[int]raft.Configuration // per VerifyLeader call: the configuration in force when it was issued
	firstOwn        map[[2]uint64]uint64       // (node, term) -> index of the first entry that leader stored in its term
	held            map[int]map[uint64]Applied // per node: what its log store holds (mirror kept by the store hooks)
}

func newMonitors(w *World) *Monitors {
	return &Monitors{w: w, agreed: map[uint64]fact{}, leaders: map[uint64]int{}, senders: map[uint64]int{}, streams: map[[2]int]*fsmStream{},
		lastCommit: map[[2]int]uint64{}, lastTerm: map[int]uint64{}, grants: map[grantKey]string{}, notify: map[[2]int][]bool{}, leadGains: map[[2]int]int{},
		storedIDs: map[string]bool{}, transitions: map[[2]int]int{}, wasLeader: map[[2]int]bool{}, leaderAt: map[uint64]leaderRec{}, restoreFloor: map[[2]int]uint64{}, floorByData: map[string]uint64{}, isSeen: map[string]*isRec{}, electCommit: map[[2]int]uint64{}, reported: map[int][3]uint64{}, reportedCfg: map[int]string{}, grantInc: map[grantKey]int{}}
}

// rootCause records a violation that is the origin of others: every later
// violation of the execution carries "+after:<sig>" in its signature, so that a
// listed known finding never hides an unrelated violation of the same kind.
func (m *Monitors) rootCause(props []string, sig, f string, a ...any) {
	if m.taint == "" {
		for _, p := range props {
			m.fail(p, sig, f, a...)
		}
		m.taint = sig
	}
}

func (m *Monitors) fail(prop, sig, f string, a ...any) {
	msg := fmt.Sprintf(f, a...)
	if m.taint != "" {
		sig += "+after:" + m.taint
	}
	for _, v := range m.viol {
		if v.Prop == prop && v.Sig == sig {
			return
		}
	}
	m.viol = append(m.viol, Violation{Prop: prop, Sig: sig, Msg: msg})
	m.w.logf("VIOLATION %s [%s] %s", prop, sig, msg)
}

func appliedOf(l *raft.Log) Applied {
	return Applied{Index: l.Index, Term: l.Term, Type: uint8(l.Type), Data: string(l.Data)}
}

// commitFact records that index e.Index is committed with content e.
func (m *Monitors) commitFact(e Applied, src string, term uint64) {
	if f, ok := m.agreed[e.Index]; ok {
		if f.e != e {
			m.fail("C03", "committed-facts-disagree", "index %d committed as %v (%s) and as %v (%s)", e.Index, f.e, f.src, e, src)
		}
		if term != 0 && (f.ct == 0 || term < f.ct) {
			f.ct = term
			m.agreed[e.Index] = f
		}
		return
	}
	m.agreed[e.Index] = fact{e, src, term}
	if e.Index > m.maxCommitted {
		m.maxCommitted = e.Index
	}
}

// covered reports whether node's durable state holds committed entry f (log or snapshot).
func (m *Monitors) holds(n *Node, f fact) (bool, string) {
	if s := n.snaps.Newest(); s != nil && s.meta.Index >= f.e.Index {
		return true, ""
	}
	if l := n.store.Peek(f.e.Index); l != nil {
		if appliedOf(l) == f.e {
			return true, ""
		}
		return false, fmt.Sprintf("log holds %v", appliedOf(l))
	}
	if s := n.snaps.Newest(); s != nil && s.meta.Index >= f.e.Index {
		return true, ""
	}
	return false, "absent from log and not covered by a snapshot"
}

// ---------------------------------------------------------------------------
// lifecycle hooks

func (m *Monitors) OnBootstrap(node int, s NodeStore) {}
func (m *Monitors) OnStart(node, inc int, n *Node)    {}
func (m *Monitors) OnBootError(node, inc int, err error) {
	m.fail("C10", "newraft-error", "NewRaft on n%d.%d returned error: %v", node, inc, err)
}

func (m *Monitors) OnBooted(node, inc int, r *raft.Raft) {
	n := m.w.nodes[node]
	// C10: the new instance reports what was durably recorded
	dt := n.store.U64("CurrentTerm")
	if r.CurrentTerm() != dt {
		m.fail("C10", "term-not-restored", "n%d.%d reports term %d, durable term %d", node, inc, r.CurrentTerm(), dt)
	}
	want := n.store.Hi()
	if s := n.snaps.Newest(); s != nil && s.meta.Index > want {
		want = s.meta.Index
	}
	if r.LastIndex() != want {
		m.fail("C10", "lastindex-not-restored", "n%d.%d reports last index %d, durable state says %d", node, inc, r.LastIndex(), want)
	}
	// configuration: newest among snapshot's and log entries above it
	var cfg raft.Configuration
	if s := n.snaps.Newest(); s != nil {
		cfg = s.meta.Configuration
	}
	for _, i := range n.store.Indexes() {
		l := n.store.Peek(i)
		if s := n.snaps.Newest(); s != nil && i <= s.meta.Index {
			continue
		}
		if l.Type == raft.LogConfiguration {
			cfg = raft.DecodeConfiguration(l.Data)
		}
	}
	got := r.GetConfiguration().Configuration()
	if fmt.Sprint(got.Servers) != fmt.Sprint(cfg.Servers) {
		m.fail("C10", "configuration-not-restored", "n%d.%d reports configuration %v, durable state says %v", node, inc, got.Servers, cfg.Servers)
	}
	if rep, ok := m.reported[node]; ok && !m.failedUserRestore(node) {
		// (a user Restore cut short by the crash has written its snapshot without the server having taken it on yet)
		// the previous incarnation was stopped at rest: the new one resumes with the log it had reported
		d1 := r.VerifDump()
		lt := d1.LastLogTerm
		if d1.LastSnapIndex > d1.LastLogIndex {
			lt = d1.LastSnapTerm
		}
		if r.LastIndex() != rep[0] || lt != rep[1] {
			m.fail("C10", "log-differs-from-before-the-crash", "n%d reported last entry (%d, term %d) before it was stopped at rest; restarted as n%d.%d it reports (%d, term %d)", node, rep[0], rep[1], node, inc, r.LastIndex(), lt)
		}
		if rc, ok := m.reportedCfg[node]; ok && rc != fmt.Sprint(got.Servers) {
			m.fail("C10", "configuration-differs-from-before-the-crash", "n%d acted on configuration %s before it was stopped at rest; restarted as n%d.%d it reports %v", node, rc, node, inc, got.Servers)
		}
		delete(m.reported, node)
		delete(m.reportedCfg, node)
	}
	m.checkTermMonotone(node, r.CurrentTerm(), "restart")
}

// OnCrash: mid = the crash happens inside a storage operation (the durable image may be ahead of what was reported).
func (m *Monitors) OnCrash(node, inc int, mid bool) {
	if mid {
		delete(m.reported, node)
		delete(m.reportedCfg, node)
	}
}

func (m *Monitors) OnServerPanic(node, inc int, v any, stack string) {
	msg := fmt.Sprint(v)
	m.serverPanics = append(m.serverPanics, msg)
	n := m.w.nodes[node]
	if !n.booted {
		m.fail("C10", "newraft-panic", "NewRaft on n%d.%d panicked: %v", node, inc, v)
		return
	}
	// a failed durable write of the term is a deliberate fail-stop
	if strings.Contains(msg, "failed to save current term") {
		return
	}
	fn := panicSite(stack)
	// a panic takes the whole process down: every caller of this server is stranded (C17)
	m.fail("C17", "panic:"+fn, "n%d.%d panicked: %v (in %s)", node, inc, v, fn)
}

func panicSite(stack string) string {
	for _, ln := range strings.Split(stack, "\n") {
		if strings.Contains(ln, "hashicorp/raft.") && !strings.Contains(ln, "zzverif") {
			s := ln[strings.Index(ln, "hashicorp/raft.")+len("hashicorp/raft."):]
			if i := strings.LastIndex(s, "("); i > 0 {
				s = s[:i]
			}
			return s
		}
	}
	return "?"
}

func (m *Monitors) OnClientPanic(t *vsched.Thread, v any, stack string) {
	if strings.HasPrefix(t.Name, "client") {
		m.fail("C17", "client-panic", "client thread %s panicked inside the API: %v", t.Name, v)
		return
	}
	m.w.internalErr = fmt.Sprintf("harness thread %s panicked: %v\n%s", t.Name, v, stack)
}

func (m *Monitors) checkTermMonotone(node int, t uint64, where string) {
	if t < m.lastTerm[node] {
		m.fail("C06", "term-decreased", "n%d term went from %d to %d (%s)", node, m.lastTerm[node], t, where)
	}
	if t > m.lastTerm[node] {
		m.lastTerm[node] = t
	}
}

// ---------------------------------------------------------------------------
// observations (synchronous, on raft's own thread)

func (m *Monitors) OnObservation(node, inc int, o *raft.Observation) {
	switch d := o.Data.(type) {
	case raft.RaftState:
		term := o.Raft.CurrentTerm()
		k := [2]int{node, inc}
		if d == raft.Leader && !m.wasLeader[k] {
			m.wasLeader[k] = true
			m.transitions[k]++
		} else if d != raft.Leader && m.wasLeader[k] {
			m.wasLeader[k] = false
			m.transitions[k]++
		}
		if d == raft.Leader {
			if prev, ok := m.leaders[term]; ok && prev != node {
				m.fail("C01", "two-leaders-one-term", "n%d and n%d both became leader in term %d", prev, node, term)
			}
			m.leaders[term] = node
			m.electCommit[[2]int{node, inc}] = o.Raft.CommitIndex()
			if _, ok := m.leaderAt[term]; !ok {
				m.leaderAt[term] = leaderRec{node, m.w.events}
			}
			m.leadGains[[2]int{node, inc}]++
			m.checkLeaderCompleteness(m.w.nodes[node], "on election")
			// C07: an elected server is a voter of its own latest configuration
			cfg := o.Raft.VerifDump().Latest
			isVoter := false
			for _, s := range cfg.Servers {
				if s.ID == m.w.nodes[node].sid && s.Suffrage == raft.Voter {
					isVoter = true
				}
			}
			if !isVoter {
				m.fail("C07", "non-voter-elected", "n%d became leader in term %d but is not a voter in its latest configuration %v", node, term, cfg.Servers)
			}
		}
	}
}

func (m *Monitors) checkLeaderCompleteness(n *Node, when string) {
	if n.r == nil {
		return
	}
	term := n.r.CurrentTerm()
	for i := uint64(1); i <= m.maxCommitted; i++ {
		f, ok := m.agreed[i]
		if !ok {
			continue
		}
		// a deposed leader of an older term that has not noticed yet is not a leader "afterwards"
		if f.ct == 0 || term < f.ct {
			continue
		}
		if ok2, why := m.holds(n, f); !ok2 {
			m.fail("C03", "leader-missing-committed", "n%d is leader (%s) but committed entry %v (from %s) is not held: %s", n.id, when, f.e, f.src, why)
			return
		}
	}
}

// ---------------------------------------------------------------------------
// network

func termOfReq(req any) (uint64, bool) {
	switch r := req.(type) {
	case *raft.AppendEntriesRequest:
		return r.Term, true
	case *raft.InstallSnapshotRequest:
		return r.Term, true
	}
	return 0, false
}

func (m *Monitors) OnSend(msg *Msg) {
	if ae, ok := msg.Req.(*raft.AppendEntriesRequest); ok {
		// root cause of the stale-suffix defect: a leader replicates, as part of its log, an entry at or
		// below its own snapshot index that is not the committed entry of that index
		n := m.w.nodes[msg.From]
		if sn := n.snaps.Newest(); sn != nil {
			for _, e := range ae.Entries {
				if e.Index <= sn.meta.Index {
					// (a deposed leader of an older term that has not noticed yet may still send what it holds:
					// nobody will accept it; only a leader of the committing term or later is judged)
					if f, ok := m.agreed[e.Index]; ok && f.e != appliedOf(e) && f.ct != 0 && ae.Term >= f.ct {
						m.rootCause([]string{"C02", "C03", "C04"}, "stale-entry-below-own-snapshot-replicated",
							"leader n%d (snapshot at %d) sends %v from its log although index %d was committed as %v: log entries left over below an installed snapshot are served as history", msg.From, sn.meta.Index, appliedOf(e), e.Index, f.e)
						break
					}
				}
			}
		}
	}
	if t, ok := termOfReq(msg.Req); ok {
		// whoever sends AppendEntries / InstallSnapshot as leader of term t was seen winning term t (the observer runs
		// synchronously inside setState, so the record precedes anything the new leader sends)
		if w, ok := m.leaders[t]; !ok || w != msg.From {
			m.fail("C01", "sender-never-won-term", "n%d sends %s as leader of term %d, a term it was never seen winning (winner on record: %v)", msg.From, msg.Kind, t, m.leaders[t])
		}
		if prev, ok := m.senders[t]; ok && prev != msg.From {
			m.fail("C01", "two-senders-one-term", "n%d and n%d both sent %s as leader of term %d", prev, msg.From, msg.Kind, t)
		}
		m.senders[t] = msg.From
	}
}
func (m *Monitors) OnDeliver(msg *Msg, inc int, discard bool) {
	if !discard {
		m.convOnDeliver(msg)
	}
}
func (m *Monitors) OnHandled(msg *Msg) {}

func (m *Monitors) OnReply(msg *Msg) {
	w := m.w
	switch req := msg.Req.(type) {
	case *raft.RequestVoteRequest:
		resp, _ := msg.Resp.Response.(*raft.RequestVoteResponse)
		if resp == nil {
			return
		}
		if resp.Granted {
			k := grantKey{msg.To, req.Term}
			cand := string(req.ID)
			if prev, ok := m.grants[k]; ok && prev != cand {
				m.fail("C06", "two-grants-one-term", "n%d granted its vote in term %d to %s and to %s", msg.To, req.Term, prev, cand)
				if pi := m.grantInc[k]; pi != msg.ToInc {
					// the first grant was durably recorded by an earlier incarnation: the restart lost it
					m.fail("C10", "vote-not-restored", "n%d.%d granted its vote in term %d to %s; restarted as n%d.%d it grants term %d to %s", msg.To, pi, req.Term, prev, msg.To, msg.ToInc, req.Term, cand)
				}
			}
			m.grants[k] = cand
			m.grantInc[k] = msg.ToInc
		}
	case *raft.InstallSnapshotRequest:
		// a follower that installs the snapshot acknowledges the sender as leader of that term (the leader counts it
		// towards VerifyLeader exactly like an AppendEntries success)
		if resp, _ := msg.Resp.Response.(*raft.InstallSnapshotResponse); resp != nil && resp.Success {
			m.acks = append(m.acks, ackRec{from: msg.From, to: msg.To, term: req.Term, delivAt: msg.DelivAt, repliedAt: w.events})
		}
	case *raft.AppendEntriesRequest:
		resp, _ := msg.Resp.Response.(*raft.AppendEntriesResponse)
		if resp != nil && resp.Success {
			m.acks = append(m.acks, ackRec{from: msg.From, to: msg.To, term: req.Term, delivAt: msg.DelivAt, repliedAt: w.events})
		}
		if resp == nil || !resp.Success || len(req.Entries) == 0 {
			return
		}
		// C04: success => follower log equals the request through the last entry sent
		// (only checkable if the follower has not been given anything since; compare at handle time instead)
		_ = w
	}
}

// ---------------------------------------------------------------------------
// storage

func (m *Monitors) OnStoreLogs(node int, logs []*raft.Log) {
	n := m.w.nodes[node]
	for _, l := range logs {
		if l.Type == raft.LogCommand {
			m.storedIDs[string(l.Data)] = true
		}
		// C03 (b): overwriting a committed entry the server held with something else (a deposed leader that appends
		// an entry of its own at an index it did not hold yet overwrites nothing)
		if m.held == nil {
			m.held = map[int]map[uint64]Applied{}
		}
		if m.held[node] == nil {
			m.held[node] = map[uint64]Applied{}
		}
		if f, ok := m.agreed[l.Index]; ok && appliedOf(l) != f.e {
			if prev, had := m.held[node][l.Index]; had && prev == f.e {
				m.fail("C03", "committed-overwritten", "n%d stores %v over committed %v", node, appliedOf(l), f.e)
			}
		}
		m.held[node][l.Index] = appliedOf(l)
	}
	// C07: a leader appends a configuration only after the previous one is committed
	// and after an entry of its own term is committed
	if n.up && n.r != nil && n.r.State() == raft.Leader && m.w.nodeOfCur() == n {
		if m.firstOwn == nil {
			m.firstOwn = map[[2]uint64]uint64{}
		}
		for _, l := range logs {
			// the first entry this leader stored in its term (its no-op); survives compaction and log resets
			if k := [2]uint64{uint64(node), l.Term}; l.Term == n.r.CurrentTerm() && m.firstOwn[k] == 0 {
				m.firstOwn[k] = l.Index
			}
		}
		for _, l := range logs {
			if l.Type != raft.LogConfiguration {
				continue
			}
			// what the commitment tracker had computed when this configuration took effect: commits up to here were
			// decided under the previous configuration (or by the switch itself), later ones must satisfy the new one
			if m.cfgAppendCommit == nil {
				m.cfgAppendCommit = map[[3]uint64]uint64{}
			}
			m.cfgAppendCommit[[3]uint64{uint64(node), uint64(n.inc), l.Index}] = n.r.VerifCommitmentIndex()
			ci := n.r.CommitIndex()
			// previous configuration entry index in this log
			var prevCfg uint64
			for _, i := range n.store.Indexes() {
				if i < l.Index && n.store.Peek(i).Type == raft.LogConfiguration {
					prevCfg = i
				}
			}
			if s := n.snaps.Newest(); s != nil && s.meta.ConfigurationIndex > prevCfg && s.meta.ConfigurationIndex < l.Index {
				prevCfg = s.meta.ConfigurationIndex
			}
			if prevCfg > ci {
				m.fail("C07", "config-appended-before-previous-committed", "leader n%d appends configuration at %d while the previous one at %d is not committed (commit %d)", node, l.Index, prevCfg, ci)
			}
			// first index of the leader's current term in its log
			var firstOwn uint64
			for _, i := range n.store.Indexes() {
				if n.store.Peek(i).Term == l.Term {
					firstOwn = i
					break
				}
			}
			if fo := m.firstOwn[[2]uint64{uint64(node), l.Term}]; fo != 0 && fo != l.Index {
				firstOwn = fo
			}
			if s := n.snaps.Newest(); s != nil && s.meta.Term == l.Term && s.meta.Index <= ci {
				firstOwn = 0 // an entry of this term is covered by the server's snapshot, hence committed
			} else if firstOwn == 0 {
				firstOwn = l.Index
			}
			if firstOwn == l.Index || ci < firstOwn {
				m.fail("C07", "config-appended-before-own-term-commit", "leader n%d (term %d) appends configuration at %d before an entry of its term is committed (commit %d, first own %d)", node, l.Term, l.Index, ci, firstOwn)
			}
		}
	}
}

func (m *Monitors) OnDeleteRange(node int, min, max uint64, removed []*raft.Log) {
	n := m.w.nodes[node]
	if len(removed) == 0 {
		return
	}
	for _, l := range removed {
		delete(m.held[node], l.Index)
	}
	last := removed[len(removed)-1].Index
	snapIdx := uint64(0)
	if s := n.snaps.Newest(); s != nil {
		snapIdx = s.meta.Index
	}
	// C11: routine compaction (a removal from the front of committed entries the snapshot covers) leaves at least
	// TrailingLogs entries when that many exist; the wholesale reset of a store that cannot hold gaps is exempt.
	if n.r != nil && n.conf != nil && last <= snapIdx && last <= n.r.CommitIndex() {
		rest := n.store.Indexes()
		front := len(rest) == 0 || removed[0].Index < rest[0]
		reset := len(rest) == 0 && m.w.sc.Store != StorePlain && m.w.sc.Store != StoreInmem
		before := uint64(len(rest) + len(removed))
		want := n.conf.TrailingLogs
		if before < want {
			want = before
		}
		if front && !reset && uint64(len(rest)) < want {
			m.fail("C11", "compaction-leaves-fewer-than-trailing", "n%d DeleteRange(%d,%d) below its snapshot %d leaves %d of %d entries, TrailingLogs is %d", node, min, max, snapIdx, len(rest), before, n.conf.TrailingLogs)
		}
	}
	if last <= snapIdx {
		return // everything removed is covered by the newest durable snapshot
	}
	if n.store.Hi() > max {
		// entries above the removed range remain: this is a removal from the front
		m.fail("C11", "compaction-beyond-snapshot", "n%d DeleteRange(%d,%d) removes index %d above its newest durable snapshot %d", node, min, max, last, snapIdx)
		return
	}
	// suffix truncation or wholesale reset: must not remove committed entries that no snapshot covers
	wholesale := n.store.Hi() == 0 && m.w.sc.Store != StorePlain && m.w.sc.Store != StoreInmem
	for _, l := range removed {
		if l.Index <= snapIdx {
			continue
		}
		if f, ok := m.agreed[l.Index]; ok && f.e == appliedOf(l) {
			if wholesale {
				m.rootCause([]string{"C03"}, "committed-entry-removed-by-log-reset", "n%d resets its whole log (DeleteRange %d..%d, snapshot at %d) and thereby drops committed entry %v which no snapshot of its own covers", node, min, max, snapIdx, f.e)
			} else {
				m.fail("C03", "committed-truncated", "n%d truncates committed entry %v (DeleteRange %d..%d)", node, f.e, min, max)
			}
			break
		}
	}
}

func (m *Monitors) OnStableSet(node int, key string, val []byte) {}

// OnSnapshotDurable: C11 - a snapshot's index, term, configuration and content are those of the committed history at its index.
func (m *Monitors) OnSnapshotDurable(node int, meta raft.SnapshotMeta, data []byte) {
	var content []Applied
	user := false
	if len(data) > 0 {
		if err := json.Unmarshal(data, &content); err != nil {
			user = true // a user-supplied snapshot (C20)
		}
	}
	if f, ok := m.agreed[meta.Index]; ok && !user && f.e.Term != meta.Term {
		m.fail("C11", "snapshot-term-wrong", "n%d snapshot at index %d stamped with term %d, the committed entry there has term %d", node, meta.Index, meta.Term, f.e.Term)
	}
	// after a user Restore the FSM content is the supplied bytes followed by later entries: history at or
	// below the restore's floor is replaced, not missing
	var floor uint64
	for _, a := range content {
		if a.Type == 255 {
			floor = m.floorByData[a.Data] + 1
		}
	}
	if !user {
		have := map[uint64]bool{}
		for _, a := range content {
			if a.Type == 255 {
				continue
			}
			have[a.Index] = true
			if a.Index > meta.Index {
				m.fail("C11", "snapshot-content-beyond-index", "n%d snapshot stamped with index %d contains entry %v", node, meta.Index, a)
			}
			if f, ok := m.agreed[a.Index]; ok && f.e != a {
				m.fail("C11", "snapshot-content-wrong", "n%d snapshot at %d contains %v, committed history has %v", node, meta.Index, a, f.e)
			}
		}
		for i := floor + 1; i <= meta.Index; i++ {
			if f, ok := m.agreed[i]; ok && m.fsmSees(raft.LogType(f.e.Type)) && !have[i] {
				m.fail("C11", "snapshot-content-missing", "n%d snapshot stamped with index %d lacks committed entry %v", node, meta.Index, f.e)
				break
			}
		}
	}
	// configuration: the newest configuration entry of the committed history at or below the snapshot index
	var cfgIdx uint64
	var cfg raft.Configuration
	for i, f := range m.agreed {
		if f.e.Type == uint8(raft.LogConfiguration) && i <= meta.Index && i > cfgIdx {
			cfgIdx = i
			cfg = raft.DecodeConfiguration([]byte(f.e.Data))
		}
	}
	if cfgIdx > 0 && !user {
		if meta.ConfigurationIndex != cfgIdx || fmt.Sprint(meta.Configuration.Servers) != fmt.Sprint(cfg.Servers) {
			m.fail("C11", "snapshot-configuration-wrong", "n%d snapshot at index %d carries configuration %v@%d, the committed history at that index has %v@%d", node, meta.Index, meta.Configuration.Servers, meta.ConfigurationIndex, cfg.Servers, cfgIdx)
		}
	}
}

// ---------------------------------------------------------------------------
// FSM

func (m *Monitors) stream(node, inc int) *fsmStream {
	k := [2]int{node, inc}
	s, ok := m.streams[k]
	if !ok {
		s = &fsmStream{node: node, inc: inc}
		m.streams[k] = s
	}
	return s
}

func (m *Monitors) OnApply(node, inc int, a Applied, batch bool) {
	if a.Type == 100 {
		return // StoreConfiguration notification
	}
	s := m.stream(node, inc)
	n := m.w.nodes[node]
	m.restoreApply(node, inc, a)
	if a.Index <= s.last {
		m.fail("C02", "fsm-index-not-increasing", "n%d.%d FSM given index %d after %d", node, inc, a.Index, s.last)
	}
	// skipped indexes must be entries the FSM is never shown
	for j := s.last + 1; j < a.Index; j++ {
		var t *uint8
		if f, ok := m.agreed[j]; ok {
			t = &f.e.Type
		} else if l := n.store.Peek(j); l != nil {
			x := uint8(l.Type)
			t = &x
		}
		if t != nil && m.fsmSees(raft.LogType(*t)) {
			m.fail("C02", "fsm-skipped-entry", "n%d.%d FSM jumped from %d to %d skipping index %d of type %d", node, inc, s.last, a.Index, j, *t)
			break
		}
	}
	s.last = a.Index
	s.started = true
	var term uint64
	if n.r != nil {
		term = n.r.CurrentTerm()
	} else {
		term = n.store.U64("CurrentTerm")
	}
	m.commitFactFSM(a, fmt.Sprintf("FSM n%d.%d", node, inc), term)
	// nothing uncommitted reaches an FSM: the entry must be durable on the server itself
	if l := n.store.Peek(a.Index); l == nil || appliedOf(l) != a {
		if sn := n.snaps.Newest(); sn == nil || sn.meta.Index < a.Index {
			m.fail("C02", "fsm-given-entry-not-in-own-log", "n%d.%d FSM given %v which is not in its own durable log", node, inc, a)
		}
	}
}

func (m *Monitors) commitFactFSM(a Applied, src string, term uint64) {
	if f, ok := m.agreed[a.Index]; ok && f.e != a {
		m.fail("C02", "fsm-streams-disagree", "index %d: %s given %v but %s had %v", a.Index, src, a, f.src, f.e)
		return
	}
	m.commitFact(a, src, term)
}

func (m *Monitors) fsmSees(t raft.LogType) bool {
	switch t {
	case raft.LogCommand:
		return true
	case raft.LogConfiguration:
		return m.w.sc.FSM == FSMBatching
	}
	return false
}

func (m *Monitors) OnRestore(node, inc int, content []Applied, raw []byte) {
	s := m.stream(node, inc)
	var last uint64
	for _, a := range content {
		if a.Type == 255 {
			// user-supplied snapshot: C20 handles it; the stream continues above the snapshot just created/installed
			s.last = 0
			if sn := m.w.nodes[node].snaps.Newest(); sn != nil {
				s.last = sn.meta.Index
			}
			s.started = true
			m.userRestore(node, inc, a.Data)
			return
		}
		if f, ok := m.agreed[a.Index]; ok && f.e != a {
			m.fail("C02", "restore-content-disagrees", "n%d.%d restored %v but index %d was agreed as %v (%s)", node, inc, a, a.Index, f.e, f.src)
		}
		if a.Index <= last {
			m.fail("C02", "restore-content-unordered", "n%d.%d restored content not increasing at %v", node, inc, a)
		}
		last = a.Index
	}
	// every agreed FSM-visible entry up to the last restored index must be present
	have := map[uint64]bool{}
	for _, a := range content {
		have[a.Index] = true
	}
	for i := uint64(1); i <= last; i++ {
		if f, ok := m.agreed[i]; ok && m.fsmSees(raft.LogType(f.e.Type)) && !have[i] {
			m.fail("C02", "restore-content-missing", "n%d.%d restored a snapshot reaching index %d that lacks agreed entry %v", node, inc, last, f.e)
		}
	}
	s.last = last
	s.started = true
	m.w.logf("n%d.%d RESTORE up to %d (%d records)", node, inc, last, len(content))
}

func (m *Monitors) OnFSMSnapshot(node, inc int, content []Applied) {}

// ---------------------------------------------------------------------------
// clients

func (m *Monitors) OnInvoke(c *Call) {
	if c.Kind == "verify" {
		if n := m.w.nodes[c.Node]; n.r != nil {
			if m.verifyCfg == nil {
				m.verifyCfg = map[int]raft.Configuration{}
			}
			m.verifyCfg[c.ID] = n.r.VerifDump().Latest
		}
	}
}
func (m *Monitors) OnReturn(c *Call) {
	m.w.logf("RETURN call%d %s on n%d: err=%v index=%d", c.ID, c.Kind, c.Node, c.Err, c.Index)
	n := m.w.nodes[c.Node]
	if c.Kind == "restore-must-fail" {
		m.restoreReturned(c)
		return
	}
	if c.Err != nil {
		return
	}
	switch c.Kind {
	case "restore":
		m.restoreReturned(c)
	case "verify":
		m.verifyReturned(c)
	case "apply":
		l := n.store.Peek(c.Index)
		if l == nil {
			if s := n.snaps.Newest(); s == nil || s.meta.Index < c.Index {
				m.fail("C08", "ack-index-not-in-log", "call%d acknowledged at index %d which n%d does not hold", c.ID, c.Index, c.Node)
			}
		} else {
			if string(l.Data) != c.Payload || l.Type != raft.LogCommand {
				m.fail("C08", "ack-index-wrong-entry", "call%d (%s) acknowledged at index %d but the entry there is %v", c.ID, c.Payload, c.Index, appliedOf(l))
			}
			var term uint64
			if n.r != nil {
				term = n.r.CurrentTerm()
			}
			m.commitFact(appliedOf(l), fmt.Sprintf("ack call%d on n%d", c.ID, c.Node), term)
		}
		if r, ok := c.Resp.(FSMResp); !ok || r.Index != c.Index || r.Data != c.Payload {
			m.fail("C08", "response-mispaired", "call%d (%s@%d) got response %v", c.ID, c.Payload, c.Index, c.Resp)
		}
		// index greater than that of every call acknowledged before this one was invoked
		for _, o := range m.w.calls {
			if o != c && o.Done && o.Err == nil && o.Index > 0 && o.ReturnEv < c.InvokeEv && o.Index >= c.Index && (o.Kind == "apply" || o.Kind == "barrier") {
				m.fail("C08", "ack-order", "call%d acknowledged at index %d although call%d was acknowledged at %d before it was issued", c.ID, c.Index, o.ID, o.Index)
			}
		}
	case "barrier":
		// the local FSM has applied everything committed before the barrier was invoked
		s := m.stream(c.Node, c.Inc)
		for i := uint64(1); i <= c.Index; i++ {
			if f, ok := m.agreed[i]; ok && m.fsmSees(raft.LogType(f.e.Type)) && i > s.last {
				m.fail("C08", "barrier-before-apply", "barrier call%d returned at index %d but local FSM has only reached %d (missing %v)", c.ID, c.Index, s.last, f.e)
				break
			}
			// the barrier's own entry is committed, hence so is everything below it in this server's log (entries
			// committed together with the barrier are not yet known as facts at this instant)
			if l := n.store.Peek(i); l != nil && i < c.Index && i > s.last && m.fsmSees(l.Type) {
				if bl := n.store.Peek(c.Index); bl != nil && bl.Type == raft.LogBarrier {
					m.fail("C08", "barrier-before-apply", "barrier call%d returned at index %d but local FSM has only reached %d (missing %v, committed with the barrier)", c.ID, c.Index, s.last, appliedOf(l))
					break
				}
			}
		}
	}
}

// ---------------------------------------------------------------------------
// quiescent-state checks

func (m *Monitors) AtQuiescent() {
	w := m.w
	m.keys = append(m.keys, hash64(w.abstractKey()))
	// commit reports
	var leadersUp []*Node
	for _, n := range w.nodes {
		if !n.up || n.r == nil {
			continue
		}
		r := n.r
		k := [2]int{n.id, n.inc}
		ci := r.CommitIndex()
		if ci < m.lastCommit[k] {
			m.fail("C05", "commit-index-decreased", "n%d.%d commit index went from %d to %d", n.id, n.inc, m.lastCommit[k], ci)
		}
		if ci > r.LastIndex() {
			m.fail("C05", "commit-above-last", "n%d.%d commit index %d exceeds last index %d", n.id, n.inc, ci, r.LastIndex())
		}
		m.checkTermMonotone(n.id, r.CurrentTerm(), "running")
		d0 := r.VerifDump()
		lt := d0.LastLogTerm
		if d0.LastSnapIndex > d0.LastLogIndex {
			lt = d0.LastSnapTerm
		}
		m.reported[n.id] = [3]uint64{r.LastIndex(), lt, r.CurrentTerm()}
		m.reportedCfg[n.id] = fmt.Sprint(d0.Latest.Servers)
		if r.State() == raft.Leader {
			leadersUp = append(leadersUp, n)
		}
		if ci > m.lastCommit[k] {
			isLeader := r.State() == raft.Leader
			if isLeader {
				m.checkLeaderCommit(n, ci)
			}
			var snapIdx uint64
			if sn := n.snaps.Newest(); sn != nil {
				snapIdx = sn.meta.Index
			}
			for i := m.lastCommit[k] + 1; i <= ci; i++ {
				if i <= snapIdx {
					continue // superseded by the server's snapshot; whatever the log still holds there is not its state
				}
				if l := n.store.Peek(i); l != nil {
					m.commitFact(appliedOf(l), fmt.Sprintf("CommitIndex n%d.%d=%d", n.id, n.inc, ci), r.CurrentTerm())
				}
			}
			m.lastCommit[k] = ci
		}
	}
	for _, n := range leadersUp {
		m.checkLeaderCompleteness(n, "while leader")
	}
	m.checkLogs()
	m.timedChecks()
	m.notifyChecks()
	m.convChecks()
}

// checkLeaderCommit: C05 at a leader's report of commit index ci.
func (m *Monitors) checkLeaderCommit(n *Node, ci uint64) {
	d := n.r.VerifDump()
	// only commit indexes this server computed itself as leader: those above what it had when it was elected
	if base, ok := m.electCommit[[2]int{n.id, n.inc}]; !ok || ci <= base {
		return
	}
	l := n.store.Peek(ci)
	if l == nil {
		return
	}
	if l.Term != d.Term {
		m.fail("C05", "commit-not-own-term", "leader n%d (term %d) reports commit %d whose entry has term %d", n.id, d.Term, ci, l.Term)
	}
	voters, have := 0, 0
	var holders []string
	// the configuration in force is the newest one in the leader's own snapshot/log (what it holds in memory is
	// judged by C07); a leader acting on a configuration that is no longer in its log must not commit on its terms
	inForce := m.prevConfiguration(n, ^uint64(0))
	if len(inForce.Servers) == 0 {
		inForce = d.Latest
	}
	count := func(cfg raft.Configuration) {
		voters, have, holders = 0, 0, nil
		for _, s := range cfg.Servers {
			if s.Suffrage != raft.Voter {
				continue
			}
			voters++
			o := m.w.nodes[m.w.nodeByAddr(s.Address)]
			if ol := o.store.Peek(ci); ol != nil && appliedOf(ol) == appliedOf(l) {
				have++
				holders = append(holders, string(s.ID))
			} else if sn := o.snaps.Newest(); sn != nil && sn.meta.Index >= ci {
				have++
				holders = append(holders, string(s.ID))
			}
		}
	}
	count(inForce)
	if have*2 <= voters {
		// The newest configuration entry X of the leader's log lies ABOVE ci and the commitment tracker had already
		// reached ci when X took effect: ci was decided under the configuration before X (this check only sees the
		// server at rest, after both happened).
		var x uint64
		for _, i := range n.store.Indexes() {
			if n.store.Peek(i).Type == raft.LogConfiguration {
				x = i
			}
		}
		if c0, ok := m.cfgAppendCommit[[3]uint64{uint64(n.id), uint64(n.inc), x}]; ok && x > ci && ci <= c0 {
			if prev := m.prevConfiguration(n, x); len(prev.Servers) > 0 {
				count(prev)
			}
		}
	}
	if have*2 <= voters {
		if l.Type == raft.LogConfiguration && d.LatestIndex == ci {
			// would the previous configuration's voters have been enough?
			prev := m.prevConfiguration(n, ci)
			pv, ph := 0, 0
			for _, s := range prev.Servers {
				if s.Suffrage != raft.Voter {
					continue
				}
				pv++
				o := m.w.nodes[m.w.nodeByAddr(s.Address)]
				if ol := o.store.Peek(ci); ol != nil && appliedOf(ol) == appliedOf(l) {
					ph++
				}
			}
			if pv > 0 && ph*2 > pv {
				m.fail("C05", "new-configuration-committed-by-previous-configuration-majority", "leader n%d reports configuration entry %d committed with %d of %d voters of the NEW configuration (%v) holding it; only the previous configuration's majority (%d of %d) does", n.id, ci, have, voters, holders, ph, pv)
				return
			}
		}
		m.fail("C05", "commit-without-voter-majority", "leader n%d reports commit %d but only %d of %d voters (%v) durably hold that entry", n.id, ci, have, voters, holders)
	}
}

// prevConfiguration returns the configuration in n's durable state just before index idx.
func (m *Monitors) prevConfiguration(n *Node, idx uint64) raft.Configuration {
	var cfg raft.Configuration
	if s := n.snaps.Newest(); s != nil && s.meta.Index < idx {
		cfg = s.meta.Configuration
	}
	for _, i := range n.store.Indexes() {
		if i >= idx {
			break
		}
		if l := n.store.Peek(i); l.Type == raft.LogConfiguration {
			cfg = raft.DecodeConfiguration(l.Data)
		}
	}
	return cfg
}

// failedUserRestore: a user Restore was attempted on this server and did not return nil.
func (m *Monitors) failedUserRestore(node int) bool {
	for _, c := range m.w.calls {
		if c.Node == node && (c.Kind == "restore" || c.Kind == "restore-must-fail") && (!c.Done || c.Err != nil) {
			return true
		}
	}
	return false
}

// checkLogs: C04 log matching over durable logs, C07 at most one uncommitted configuration, C11 contiguity.
func (m *Monitors) checkLogs() {
	w := m.w
	for _, n := range w.nodes {
		idx := n.store.Indexes()
		var prevT uint64
		cfgAbove := 0
		var snapIdx uint64
		if s := n.snaps.Newest(); s != nil {
			snapIdx = s.meta.Index
		}
		for k, i := range idx {
			l := n.store.Peek(i)
			if i <= snapIdx {
				continue // below the snapshot: not part of the log proper
			}
			if l.Term < prevT {
				m.fail("C04", "terms-decrease", "n%d log term decreases at index %d (%d after %d)", n.id, i, l.Term, prevT)
			}
			prevT = l.Term
			if l.Type == raft.LogConfiguration && i > m.maxCommitted {
				cfgAbove++
			}
			if k > 0 && idx[k-1]+1 != i && i > snapIdx+1 {
				m.fail("C11", "log-gap-above-snapshot", "n%d log has a gap between %d and %d above snapshot %d", n.id, idx[k-1], i, snapIdx)
			}
		}
		if len(idx) > 0 && idx[0] > snapIdx+1 && idx[len(idx)-1] > snapIdx {
			m.fail("C11", "history-lost", "n%d log starts at %d but newest durable snapshot is at %d", n.id, idx[0], snapIdx)
		}
		// C07: the configuration a server acts on is the newest one in its durable state (snapshot or log)
		if n.up && n.booted && n.r != nil {
			var want raft.Configuration
			var wantIdx uint64
			if s := n.snaps.Newest(); s != nil {
				want, wantIdx = s.meta.Configuration, s.meta.ConfigurationIndex
			}
			for _, i := range idx {
				if l := n.store.Peek(i); l.Type == raft.LogConfiguration && i > snapIdx {
					want, wantIdx = raft.DecodeConfiguration(l.Data), i
				}
			}
			d := n.r.VerifDump()
			if m.failedUserRestore(n.id) {
				// operator override (documented hazard of Restore): a Restore that did not succeed leaves a local snapshot
				// above entries the cluster goes on to replace; what a restart would read from it is not judged here
				wantIdx = 0
			}
			if wantIdx > 0 && (d.LatestIndex != wantIdx || fmt.Sprint(d.Latest.Servers) != fmt.Sprint(want.Servers)) {
				m.fail("C07", "configuration-not-from-log", "n%d acts on configuration %v@%d but the newest configuration in its snapshot/log is %v@%d", n.id, d.Latest.Servers, d.LatestIndex, want.Servers, wantIdx)
			}
		}
		if cfgAbove > 1 {
			m.fail("C07", "two-uncommitted-configurations", "n%d log holds %d configuration entries above the highest committed index %d", n.id, cfgAbove, m.maxCommitted)
		}
	}
	// pairwise log matching
	for a := 0; a < len(w.nodes); a++ {
		for b := a + 1; b < len(w.nodes); b++ {
			na, nb := w.nodes[a], w.nodes[b]
			var floor uint64
			for _, x := range []*Node{na, nb} {
				if sn := x.snaps.Newest(); sn != nil && sn.meta.Index > floor {
					floor = sn.meta.Index
				}
			}
			var ia []uint64
			for _, i := range na.store.Indexes() {
				if i > floor {
					ia = append(ia, i)
				}
			}
			// highest common index with equal term
			var top uint64
			for k := len(ia) - 1; k >= 0; k-- {
				i := ia[k]
				if lb := nb.store.Peek(i); lb != nil && lb.Term == na.store.Peek(i).Term {
					top = i
					break
				}
			}
			for _, i := range ia {
				if i > top {
					break
				}
				la, lb := na.store.Peek(i), nb.store.Peek(i)
				if lb == nil {
					continue
				}
				if appliedOf(la) != appliedOf(lb) {
					m.fail("C04", "log-matching", "n%d and n%d agree at index %d (term %d) but differ at index %d: %v vs %v", a, b, top, na.store.Peek(top).Term, i, appliedOf(la), appliedOf(lb))
					break
				}
			}
		}
	}
}

// AtEnd runs once when the execution stops.
func (m *Monitors) AtEnd() {
	w := m.w
	if w.internalErr != "" {
		return
	}
	m.timedEnd()
	m.restoreEnd()
	m.restoreInflight()
	// C10: NewRaft must return
	if w.endWhy == "quiescent" {
		for _, n := range w.nodes {
			if n.up && !n.booted {
				site := "?"
				for _, s := range w.sched.Live(func(g int) bool { return g == n.group() }) {
					if strings.HasPrefix(s, "boot-") {
						site = s[strings.Index(s, "@")+1:]
						if i := strings.Index(site, "#"); i > 0 {
							site = site[:i]
						}
					}
				}
				m.fail("C10", "newraft-never-returns@"+site, "NewRaft on n%d.%d never returned: the constructor is parked in %s and nothing can wake it", n.id, n.inc, site)
			}
		}
	}
	// C17: no client stuck for ever at a state where nothing can happen any more
	{
		for _, c := range w.calls {
			if c.Done {
				continue
			}
			// stuck for ever: nothing at all is enabled any more, or the server was shut down and none of its threads is left
			n := w.nodes[c.Node]
			serverGone := n.up && n.inc == c.Inc && n.r != nil && n.r.State() == raft.Shutdown && len(w.sched.Live(func(g int) bool { return g == n.group() })) == 0
			longAgo := w.sc.Liveness && n.up && n.inc == c.Inc && w.events-c.InvokeEv >= 300 && w.now()-c.InvokeNow >= 5*tElection
			if longAgo && !(w.endWhy == "quiescent" || serverGone) {
				site := "?"
				if c.Thread != nil {
					site = c.Thread.What
					if i := strings.Index(site, "#"); i > 0 {
						site = site[:i]
					}
				}
				m.fail("C17", "unresolved:"+c.Kind+"@"+site, "call%d %s on n%d was issued at %v (event %d) and is still unresolved at %v (event %d) although the server runs", c.ID, c.Kind, c.Node, c.InvokeNow, c.InvokeEv, w.now(), w.events)
				continue
			}
			if w.endWhy == "quiescent" || serverGone {
				site := "?"
				if c.Thread != nil {
					site = c.Thread.What
				}
				if i := strings.Index(site, "#"); i > 0 {
					site = site[:i] // the function the caller is parked in; the select's ordinal is not part of the signature
				}
				m.fail("C17", "stuck:"+c.Kind+"@"+site, "call%d %s on n%d never returned: nothing is enabled any more (parked at %s)", c.ID, c.Kind, c.Node, site)
			}
		}
	}
	// C08: failed calls leave no trace
	for _, c := range w.calls {
		if c.Kind != "apply" || !c.Done || c.Err == nil {
			continue
		}
		if c.Err == raft.ErrNotLeader || c.Err == raft.ErrEnqueueTimeout || c.Err == raft.ErrLeadershipTransferInProgress {
			if m.storedIDs[c.Payload] {
				m.fail("C08", "rejected-but-stored", "call%d (%s) failed with %v but the command was stored in a log", c.ID, c.Payload, c.Err)
			}
		}
	}
	// C08: any id at most once in the committed record
	seen := map[string]uint64{}
	for i, f := range m.agreed {
		if f.e.Type != uint8(raft.LogCommand) {
			continue
		}
		if j, ok := seen[f.e.Data]; ok && j != i {
			m.fail("C08", "command-committed-twice", "command %s committed at indexes %d and %d", f.e.Data, j, i)
		}
		seen[f.e.Data] = i
	}
}

func (m *Monitors) outcome() string {
	w := m.w
	var sb strings.Builder
	sb.WriteString(w.endWhy + ";")
	for _, n := range w.nodes {
		if n.up && n.r != nil {
			fmt.Fprintf(&sb, "%d/%d/%d;", n.r.State(), n.r.CurrentTerm(), n.r.CommitIndex())
		} else {
			sb.WriteString("down;")
		}
	}
	for _, c := range w.calls {
		e := "nil"
		if c.Err != nil {
			e = ptrRe.ReplaceAllString(c.Err.Error(), "0xPTR") // some error texts print a pointer
		}
		if !c.Done {
			e = "pending"
		}
		fmt.Fprintf(&sb, "%s:%s;", c.Kind, e)
	}
	var vs []string
	for _, v := range m.viol {
		vs = append(vs, v.Prop+":"+v.Sig)
	}
	sort.Strings(vs)
	sb.WriteString(strings.Join(vs, ","))
	return sb.String()
}

var ptrRe = regexp.MustCompile(`0x[0-9a-f]{6,}`)

var globalKnown *KnownFindings

// unknownViolations counts violations that are not listed known findings.
func (m *Monitors) unknownViolations() int {
	if globalKnown == nil {
		globalKnown = loadKnown(verifDir())
	}
	n := 0
	for _, v := range m.viol {
		if currentProp != "" && v.Prop != currentProp {
			continue // a check decides its own property: the execution goes on past violations of others
		}
		if !globalKnown.Matches(v) {
			n++
		}
	}
	return n
}

// currentProp is the property the running check decides ("" = all).
var currentProp string
