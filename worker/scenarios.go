package main

import (
	"sort"

	"github.com/hashicorp/raft"
)

var scenarios = map[string]func() *Scenario{}

func regScenario(name string, f func() *Scenario) {
	scenarios[name] = func() *Scenario {
		s := f()
		s.Name = name
		return s
	}
}

func scenarioByName(n string) *Scenario {
	f, ok := scenarios[n]
	if !ok {
		return nil
	}
	return f()
}

func scenarioNames() []string {
	var out []string
	for k := range scenarios {
		out = append(out, k)
	}
	sort.Strings(out)
	return out
}

func voters(n int) []NodeSpec {
	var out []NodeSpec
	for i := 0; i < n; i++ {
		out = append(out, NodeSpec{Suffrage: raft.Voter, InBootstrap: true, StartUp: true})
	}
	return out
}

// step helpers ---------------------------------------------------------------

func whenStable(w *World) bool { return w.stableLeader() != nil && w.netIdle() }

func stepApplyLeader(name string) Step {
	return Step{Name: name, When: whenStable, Do: func(w *World) { w.apply(w.leader(), 0) }}
}

func stepApplyOn(name string, node int) Step {
	return Step{Name: name, When: whenStable, Do: func(w *World) { w.apply(w.nodes[node], 0) }}
}

func stepBarrier(name string) Step {
	return Step{Name: name, When: whenStable, Do: func(w *World) { w.barrier(w.leader()) }}
}

func stepCrashLeader(name string) Step {
	return Step{Name: name, When: func(w *World) bool { return w.leader() != nil }, Do: func(w *World) {
		l := w.leader()
		w.vals["crashed"] = l.id
		w.crash(l)
	}}
}

func stepRestart(name string, key string) Step {
	return Step{Name: name, When: whenStable, Do: func(w *World) { w.start(w.nodes[w.vals[key]]) }}
}

func goalConverged(w *World) bool { return w.converged() }

func init() {
	regScenario("elect3", func() *Scenario {
		return &Scenario{Nodes: voters(3), Devs: DevAll, Horizon: 150, Goal: goalConverged}
	})
	regScenario("elect2", func() *Scenario {
		return &Scenario{Nodes: voters(2), Devs: DevAll, Horizon: 120, Goal: goalConverged}
	})
	regScenario("elect5", func() *Scenario {
		return &Scenario{Nodes: voters(5), Devs: DevAll &^ DevStore, Horizon: 200, Goal: goalConverged}
	})
	regScenario("write3", func() *Scenario {
		return &Scenario{Nodes: voters(3), Devs: DevAll, Horizon: 250, Goal: goalConverged, AutoRestart: true,
			Conf:  func(i int, c *raft.Config) { c.MaxAppendEntries = 2 },
			Steps: []Step{stepApplyLeader("apply1"), stepApplyLeader("apply2"), stepBarrier("barrier")}}
	})
	regScenario("crash3", func() *Scenario {
		return &Scenario{Nodes: voters(3), Devs: DevAll, Horizon: 400, Goal: goalConverged, AutoRestart: true,
			Steps: []Step{stepApplyLeader("apply1"),
				{Name: "apply2+crash-leader", When: whenStable, Do: func(w *World) { w.apply(w.leader(), 0) }},
				stepCrashLeader("crash-leader"),
				stepApplyLeader("apply3"),
				stepRestart("restart-old-leader", "crashed"),
			}}
	})
}
