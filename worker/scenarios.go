package main

import (
	"fmt"
	"sort"
	"time"

	"github.com/hashicorp/raft"
)

var scenarios = map[string]func() *Scenario{}

func regScenario(name string, f func() *Scenario) {
	scenarios[name] = func() *Scenario {
		s := f()
		s.Name = name
		return s
	}
}

func scenarioByName(n string) *Scenario {
	f, ok := scenarios[n]
	if !ok {
		return injectVariant(n)
	}
	return f()
}

func scenarioNames() []string {
	var out []string
	for k := range scenarios {
		out = append(out, k)
	}
	sort.Strings(out)
	return out
}

func voters(n int) []NodeSpec {
	var out []NodeSpec
	for i := 0; i < n; i++ {
		out = append(out, NodeSpec{Suffrage: raft.Voter, InBootstrap: true, StartUp: true})
	}
	return out
}

// step helpers ---------------------------------------------------------------

func whenStable(w *World) bool { return w.stableLeader() != nil && w.netIdle() }

func stepApplyLeader(name string) Step {
	return Step{Name: name, When: whenStable, Do: func(w *World) { w.apply(w.leader(), 0) }}
}

func stepApplyOn(name string, node int) Step {
	return Step{Name: name, When: whenStable, Do: func(w *World) { w.apply(w.nodes[node], 0) }}
}

func stepBarrier(name string) Step {
	return Step{Name: name, When: whenStable, Do: func(w *World) { w.barrier(w.leader()) }}
}

func stepCrashLeader(name string) Step {
	return Step{Name: name, When: func(w *World) bool { return w.leader() != nil }, Do: func(w *World) {
		l := w.leader()
		w.vals["crashed"] = l.id
		w.crash(l)
	}}
}

func stepRestart(name string, key string) Step {
	return Step{Name: name, When: whenStable, Do: func(w *World) { w.start(w.nodes[w.vals[key]]) }}
}

func goalConverged(w *World) bool { return w.converged() }

func init() {
	regScenario("elect3", func() *Scenario {
		return &Scenario{Nodes: voters(3), Devs: DevAll, Horizon: 150, Goal: goalConverged}
	})
	regScenario("elect2", func() *Scenario {
		return &Scenario{Nodes: voters(2), Devs: DevAll, Horizon: 120, Goal: goalConverged}
	})
	regScenario("elect5", func() *Scenario {
		return &Scenario{Nodes: voters(5), Devs: DevAll &^ DevStore, Horizon: 200, Goal: goalConverged}
	})
	regScenario("write3", func() *Scenario {
		return &Scenario{Nodes: voters(3), Devs: DevAll, Horizon: 250, Goal: goalConverged, AutoRestart: true,
			Conf:  func(i int, c *raft.Config) { c.MaxAppendEntries = 2 },
			Steps: []Step{stepApplyLeader("apply1"), stepApplyLeader("apply2"), stepBarrier("barrier")}}
	})
	regScenario("crash3", func() *Scenario {
		return &Scenario{Nodes: voters(3), Devs: DevAll, Horizon: 400, Goal: goalConverged, AutoRestart: true,
			Steps: []Step{stepApplyLeader("apply1"),
				{Name: "apply2+crash-leader", When: whenStable, Do: func(w *World) { w.apply(w.leader(), 0) }},
				stepCrashLeader("crash-leader"),
				stepApplyLeader("apply3"),
				stepRestart("restart-old-leader", "crashed"),
			}}
	})
}

// ---------------------------------------------------------------------------
// more client helpers

func (w *World) indexCall(n *Node, kind, payload string, f func(r *raft.Raft) raft.IndexFuture) *Call {
	return w.client(n, kind, payload, func(c *Call, r *raft.Raft) {
		fu := f(r)
		c.Err = fu.Error()
		if c.Err == nil {
			c.Index = fu.Index()
		}
	})
}

func (w *World) addVoter(n *Node, id int, prev uint64) *Call {
	return w.indexCall(n, "addvoter", nodeName(id), func(r *raft.Raft) raft.IndexFuture {
		return r.AddVoter(raft.ServerID(nodeName(id)), raft.ServerAddress(nodeName(id)), prev, 0)
	})
}
func (w *World) addNonvoter(n *Node, id int, prev uint64) *Call {
	return w.indexCall(n, "addnonvoter", nodeName(id), func(r *raft.Raft) raft.IndexFuture {
		return r.AddNonvoter(raft.ServerID(nodeName(id)), raft.ServerAddress(nodeName(id)), prev, 0)
	})
}
func (w *World) demote(n *Node, id int, prev uint64) *Call {
	return w.indexCall(n, "demote", nodeName(id), func(r *raft.Raft) raft.IndexFuture {
		return r.DemoteVoter(raft.ServerID(nodeName(id)), prev, 0)
	})
}
func (w *World) remove(n *Node, id int, prev uint64) *Call {
	return w.indexCall(n, "remove", nodeName(id), func(r *raft.Raft) raft.IndexFuture {
		return r.RemoveServer(raft.ServerID(nodeName(id)), prev, 0)
	})
}

func (w *World) snapshot(n *Node) *Call {
	return w.client(n, "snapshot", "", func(c *Call, r *raft.Raft) {
		f := r.Snapshot()
		c.Err = f.Error()
	})
}

func (w *World) verify(n *Node) *Call {
	return w.client(n, "verify", "", func(c *Call, r *raft.Raft) {
		c.Extra = r.CurrentTerm()
		c.Err = r.VerifyLeader().Error()
	})
}

func (w *World) transfer(n *Node, to int) *Call {
	return w.client(n, "transfer", "", func(c *Call, r *raft.Raft) {
		if to < 0 {
			c.Err = r.LeadershipTransfer().Error()
		} else {
			c.Err = r.LeadershipTransferToServer(raft.ServerID(nodeName(to)), raft.ServerAddress(nodeName(to))).Error()
		}
	})
}

func (w *World) isolate(id int, on bool) {
	for _, o := range w.nodes {
		if o.id == id {
			continue
		}
		if on {
			w.blocked[[2]int{id, o.id}] = true
			w.blocked[[2]int{o.id, id}] = true
		} else {
			delete(w.blocked, [2]int{id, o.id})
			delete(w.blocked, [2]int{o.id, id})
		}
	}
}

// a follower (lowest id that is up and not the leader)
func (w *World) aFollower() *Node {
	l := w.leader()
	for _, n := range w.nodes {
		if n.up && n != l && n.r != nil {
			return n
		}
	}
	return nil
}

func stepDo(name string, when func(w *World) bool, do func(w *World)) Step {
	return Step{Name: name, When: when, Do: do}
}

func whenStableCallsDone(w *World) bool { return whenStable(w) && w.callsDone() }

// whenLeaderQuiet: stable leader, calls done, and the leader has nothing in flight.
func whenSettled(w *World) bool {
	if !whenStableCallsDone(w) {
		return false
	}
	l := w.leader()
	return l.r.CommitIndex() == l.r.LastIndex()
}

func init() {
	// snapshots + compaction + InstallSnapshot to a lagging follower
	mkSnap := func(store StoreKind, trailing uint64, fsm FSMKind) func() *Scenario {
		return func() *Scenario {
			return &Scenario{Nodes: voters(3), Store: store, FSM: fsm, Devs: DevAll, Horizon: 500, Goal: goalConverged, AutoRestart: true,
				Conf: func(i int, c *raft.Config) { c.TrailingLogs = trailing; c.MaxAppendEntries = 2 },
				Steps: []Step{
					stepApplyLeader("apply1"), stepApplyLeader("apply2"),
					stepDo("isolate-follower", whenSettled, func(w *World) { f := w.aFollower(); w.vals["iso"] = f.id; w.isolate(f.id, true) }),
					stepApplyLeader("apply3"), stepApplyLeader("apply4"),
					stepDo("user-snapshot", whenSettled, func(w *World) { w.snapshot(w.leader()) }),
					stepDo("heal", whenSettled, func(w *World) { w.isolate(w.vals["iso"], false) }),
					stepDo("apply5", whenSettled, func(w *World) { w.apply(w.leader(), 0) }),
				}}
		}
	}
	regScenario("snap3", mkSnap(StorePlain, 0, FSMPlain))
	regScenario("snap3-trail1", mkSnap(StorePlain, 1, FSMBatching))
	regScenario("snap3-mono", mkSnap(StoreMonotonic, 0, FSMPlain))

	// stale suffix: a follower accumulates an uncommitted suffix from a deposed leader, then gets a snapshot
	regScenario("stale-suffix", func() *Scenario {
		return &Scenario{Nodes: voters(3), Devs: DevAll, Horizon: 600, Goal: goalConverged, AutoRestart: true,
			Conf: func(i int, c *raft.Config) { c.TrailingLogs = 0 },
			Steps: []Step{
				stepApplyLeader("apply1"),
				// isolate the leader; it keeps accepting writes locally
				stepDo("isolate-leader", whenSettled, func(w *World) { l := w.leader(); w.vals["old"] = l.id; w.isolate(l.id, true) }),
				stepDo("apply-on-isolated-x2", func(w *World) bool { return w.nodes[w.vals["old"]].r.State() == raft.Leader }, func(w *World) {
					w.apply(w.nodes[w.vals["old"]], 0)
					w.apply(w.nodes[w.vals["old"]], 0)
				}),
				// the others elect a new leader and move on, then snapshot+compact
				stepDo("apply-new-leader", func(w *World) bool {
					l := w.stableLeader()
					return l != nil && l.id != w.vals["old"]
				}, func(w *World) { w.apply(w.leader(), 0) }),
				stepDo("apply-new-leader2", func(w *World) bool {
					l := w.stableLeader()
					return l != nil && l.id != w.vals["old"] && l.r.CommitIndex() == l.r.LastIndex()
				}, func(w *World) { w.apply(w.leader(), 0) }),
				stepDo("snapshot-new-leader", func(w *World) bool {
					l := w.stableLeader()
					return l != nil && l.id != w.vals["old"] && l.r.CommitIndex() == l.r.LastIndex() && l.r.AppliedIndex() == l.r.LastIndex()
				}, func(w *World) { w.snapshot(w.leader()) }),
				stepDo("heal", func(w *World) bool {
					l := w.stableLeader()
					if l == nil || l.id == w.vals["old"] {
						return false
					}
					for _, c := range w.calls {
						if c.Kind == "snapshot" && !c.Done {
							return false
						}
					}
					return true
				}, func(w *World) { w.isolate(w.vals["old"], false) }),
				stepDo("apply-final", whenSettled, func(w *World) { w.apply(w.leader(), 0) }),
			}}
	})

	// as stale-suffix, but the first thing the new leader commits in its term (after the no-op, which the FSM never
	// sees) is a configuration entry, and the snapshot is taken right after it: the snapshot's (index, term) must
	// still be a position of the log, because the next AppendEntries to the deposed leader uses it as prev entry
	regScenario("stale-suffix-config", func() *Scenario {
		sc := scenarioByName("stale-suffix")
		sc.Nodes = append(voters(3), NodeSpec{Suffrage: raft.Nonvoter, StartUp: true})
		var steps []Step
		for _, st := range sc.Steps {
			switch st.Name {
			case "apply-new-leader":
				st.Name = "add-nonvoter-new-leader"
				st.Do = func(w *World) { w.addNonvoter(w.leader(), 3, 0) }
			case "apply-new-leader2":
				continue
			case "snapshot-new-leader":
				inner := st.When
				st.When = func(w *World) bool {
					for _, c := range w.calls {
						if c.Kind == "addnonvoter" && !c.Done {
							return false
						}
					}
					return inner(w)
				}
			}
			steps = append(steps, st)
		}
		sc.Steps = steps
		sc.Horizon = 800
		return sc
	})
	// the follower that was caught up by InstallSnapshot and then by AppendEntries receives the same InstallSnapshot
	// once more (a late duplicate) and is asked for a snapshot of its own right afterwards: whatever it persists
	// must be the committed history at the index it is stamped with
	mkDupIS := func(base string) func() *Scenario {
		return func() *Scenario {
			sc := scenarioByName(base)
			sc.Steps = append(sc.Steps,
				stepDo("redeliver-install-snapshot", func(w *World) bool {
					if !whenSettled(w) {
						return false
					}
					f := w.nodes[w.vals["iso"]]
					if !f.up || f.r == nil || f.r.AppliedIndex() != w.leader().r.CommitIndex() {
						return false
					}
					for _, m := range w.msgs {
						if m.Kind == "IS" && m.To == f.id && m.St == mReplied {
							return true
						}
					}
					return false
				}, func(w *World) {
					for i := len(w.msgs) - 1; i >= 0; i-- {
						if m := w.msgs[i]; m.Kind == "IS" && m.To == w.vals["iso"] && m.St == mReplied {
							w.vals["redelivered"] = 1
							w.deliver(m, true)
							return
						}
					}
				}),
				stepDo("snapshot-on-follower", func(w *World) bool { return w.netIdle() }, func(w *World) {
					if f := w.nodes[w.vals["iso"]]; f.up && f.r != nil {
						w.snapshot(f)
					}
				}),
				stepDo("apply6", whenSettled, func(w *World) { w.apply(w.leader(), 0) }),
			)
			sc.Horizon += 200
			return sc
		}
	}
	regScenario("snap3-dup-is", mkDupIS("snap3"))
	regScenario("snap3-trail1-dup-is", mkDupIS("snap3-trail1"))
	// a membership change is requested from a new leader before its no-op is committed (it must wait)
	regScenario("member-early", func() *Scenario {
		ns := append(voters(3), NodeSpec{Suffrage: raft.Nonvoter, StartUp: true})
		return &Scenario{Nodes: ns, Devs: DevAll, Horizon: 600, Goal: func(w *World) bool { return w.vals["asked"] == 1 && w.converged() },
			Steps: []Step{
				stepApplyLeader("apply1"),
				stepDo("crash-leader", whenSettled, func(w *World) { l := w.leader(); w.vals["old"] = l.id; w.crash(l) }),
				urgent(stepDo("add-nonvoter-on-new-leader-at-once", func(w *World) bool {
					l := w.leader()
					return l != nil && l.id != w.vals["old"]
				}, func(w *World) {
					w.addNonvoter(w.leader(), 3, 0)
					w.vals["asked"] = 1
				})),
				stepDo("restart-old", whenSettled, func(w *World) { w.start(w.nodes[w.vals["old"]]) }),
				stepApplyLeader("apply2"),
			}}
	})

	// membership: 1 voter -> +nonvoter -> promote -> +voter -> demote -> remove -> leader removes itself
	regScenario("member", func() *Scenario {
		ns := []NodeSpec{{Suffrage: raft.Voter, InBootstrap: true, StartUp: true}, {Suffrage: raft.Voter, StartUp: true}, {Suffrage: raft.Voter, StartUp: true}}
		return &Scenario{Nodes: ns, Devs: DevAll, Horizon: 700, Goal: goalConverged, AutoRestart: true,
			Steps: []Step{
				stepDo("add-nonvoter-n1", whenSettled, func(w *World) { w.addNonvoter(w.leader(), 1, 0) }),
				stepDo("promote-n1", whenSettled, func(w *World) { w.addVoter(w.leader(), 1, 0) }),
				stepDo("add-voter-n2", whenSettled, func(w *World) { w.addVoter(w.leader(), 2, 0) }),
				stepApplyLeader("apply1"),
				stepDo("demote-n1", whenSettled, func(w *World) { w.demote(w.leader(), 1, 0) }),
				stepDo("promote-n1-again", whenSettled, func(w *World) { w.addVoter(w.leader(), 1, 0) }),
				stepDo("remove-leader", whenSettled, func(w *World) { l := w.leader(); w.remove(l, l.id, 0) }),
				stepApplyLeader("apply2"),
			}}
	})
	// two racing change requests, one with a stale prevIndex
	regScenario("member-race", func() *Scenario {
		ns := []NodeSpec{{Suffrage: raft.Voter, InBootstrap: true, StartUp: true}, {Suffrage: raft.Voter, InBootstrap: true, StartUp: true}, {Suffrage: raft.Voter, InBootstrap: true, StartUp: true}, {Suffrage: raft.Voter, StartUp: true}}
		return &Scenario{Nodes: ns, Devs: DevAll, Horizon: 500, Goal: goalConverged, AutoRestart: true,
			Steps: []Step{
				stepDo("add-n3+remove-follower", whenSettled, func(w *World) {
					l := w.leader()
					w.addVoter(l, 3, 0)
					w.remove(l, w.aFollower().id, 1)
					w.apply(l, 0)
				}),
				stepDo("demote-follower", whenSettled, func(w *World) { w.demote(w.leader(), w.aFollower().id, 0) }),
				stepApplyLeader("apply2"),
			}}
	})

	// both followers crash and restart (majority restart)
	regScenario("majority-restart", func() *Scenario {
		return &Scenario{Nodes: voters(3), Devs: DevAll, Horizon: 500, Goal: goalConverged, AutoRestart: true,
			Steps: []Step{
				stepApplyLeader("apply1"),
				stepDo("apply2+crash-two", whenSettled, func(w *World) {
					l := w.leader()
					w.apply(l, 0)
					k := 0
					for _, n := range w.nodes {
						if n != l {
							w.vals[[]string{"a", "b"}[k]] = n.id
							k++
						}
					}
				}),
				stepDo("crash-a", nil, func(w *World) { w.crash(w.nodes[w.vals["a"]]) }),
				stepDo("crash-b", nil, func(w *World) { w.crash(w.nodes[w.vals["b"]]) }),
				stepDo("restart-a", nil, func(w *World) { w.start(w.nodes[w.vals["a"]]) }),
				stepDo("restart-b", nil, func(w *World) { w.start(w.nodes[w.vals["b"]]) }),
				stepApplyLeader("apply3"),
			}}
	})

	// Figure 8: L1 writes x locally while isolated; L2 elected by the others writes y locally and is isolated;
	// L1 re-elected replicates x to the third server.
	regScenario("fig8", func() *Scenario {
		return &Scenario{Nodes: voters(3), Devs: DevAll, Horizon: 700, Goal: goalConverged, AutoRestart: true,
			Steps: []Step{
				stepDo("isolate-L1", whenSettled, func(w *World) { l := w.leader(); w.vals["L1"] = l.id; w.isolate(l.id, true) }),
				stepDo("x-on-L1", func(w *World) bool { return w.nodes[w.vals["L1"]].r.State() == raft.Leader }, func(w *World) { w.apply(w.nodes[w.vals["L1"]], 0) }),
				stepDo("y-on-L2-isolated", func(w *World) bool {
					l := w.stableLeader()
					return l != nil && l.id != w.vals["L1"] && w.netIdle()
				}, func(w *World) {
					l := w.leader()
					w.vals["L2"] = l.id
					w.isolate(l.id, true)
					w.apply(l, 0)
				}),
				stepDo("heal-L1", func(w *World) bool { return w.netIdle() }, func(w *World) {
					w.isolate(w.vals["L1"], false)
					// keep L2 isolated
					w.isolate(w.vals["L2"], true)
				}),
				stepDo("heal-L2", func(w *World) bool {
					l := w.stableLeader()
					return l != nil && l.id != w.vals["L2"] && w.netIdle()
				}, func(w *World) { w.isolate(w.vals["L2"], false) }),
				stepDo("apply-final", whenSettled, func(w *World) { w.apply(w.leader(), 0) }),
			}}
	})

	// leadership transfer with concurrent writes
	regScenario("transfer", func() *Scenario {
		return &Scenario{Nodes: voters(3), Devs: DevAll, Horizon: 500, Goal: goalConverged, AutoRestart: true,
			Steps: []Step{
				stepApplyLeader("apply1"),
				stepDo("transfer+apply", whenSettled, func(w *World) { l := w.leader(); w.transfer(l, -1); w.apply(l, 0) }),
				stepApplyLeader("apply3"),
				stepDo("transfer-to-named", whenSettled, func(w *World) { l := w.leader(); w.transfer(l, w.aFollower().id) }),
				stepApplyLeader("apply4"),
			}}
	})
}

func init() {
	// Leadership is transferred to a NON-voter (the leader does not check the target's suffrage) and the link is
	// cut right after the TimeoutNow was handled; the old leader then restarts and stands for the same term.
	// A server without a vote must never win an election (it would do so on nobody's vote but its own).
	mkTN := func(nv int) func() *Scenario {
		return func() *Scenario {
			ns := append(voters(nv), NodeSpec{Suffrage: raft.Nonvoter, InBootstrap: true, StartUp: true})
			return &Scenario{Nodes: ns, Devs: DevAll, Horizon: 500, Goal: goalConverged, AutoRestart: true,
				Steps: []Step{
					stepApplyLeader("apply1"),
					stepDo("transfer-to-nonvoter", whenSettled, func(w *World) {
						l := w.leader()
						w.vals["old"] = l.id
						w.transfer(l, nv)
					}),
					urgent(stepDo("cut-nonvoter-off-after-timeoutnow", func(w *World) bool {
						for _, m := range w.live {
							if m.Kind == "TN" && m.To == nv && m.St == mDelivered {
								return true
							}
						}
						return w.callsDone()
					}, func(w *World) { w.isolate(nv, true) })),
					stepDo("restart-old-leader", func(w *World) bool { return w.netIdle() }, func(w *World) {
						o := w.nodes[w.vals["old"]]
						w.crash(o)
						w.start(o)
					}),
					stepDo("heal", func(w *World) bool { l := w.stableLeader(); return l != nil && w.netIdle() }, func(w *World) { w.isolate(nv, false) }),
					stepApplyLeader("apply-final"),
				}}
		}
	}
	regScenario("transfer-nonvoter1", mkTN(1))
	regScenario("transfer-nonvoter3", mkTN(3))
}

func init() {
	// As stale-suffix, but the deposed leader keeps trailing logs (as the default configuration does), later becomes
	// leader again and brings a brand-new server up to date from its own log.
	regScenario("stale-suffix-trail", func() *Scenario {
		ns := append(voters(3), NodeSpec{Suffrage: raft.Nonvoter, StartUp: true})
		notOld := func(w *World) *Node {
			l := w.stableLeader()
			if l == nil || l.id == w.vals["old"] {
				return nil
			}
			return l
		}
		return &Scenario{Nodes: ns, Devs: DevAll, Horizon: 900, Goal: goalConverged, AutoRestart: true,
			Conf: func(i int, c *raft.Config) {
				c.MaxAppendEntries = 2
				c.TrailingLogs = 0
				if i == 0 {
					c.TrailingLogs = 64
				}
			},
			Steps: []Step{
				stepApplyLeader("apply1"),
				stepDo("isolate-leader", whenSettled, func(w *World) { l := w.leader(); w.vals["old"] = l.id; w.isolate(l.id, true) }),
				stepDo("apply-on-isolated-x2", func(w *World) bool { return w.nodes[w.vals["old"]].r.State() == raft.Leader }, func(w *World) {
					w.apply(w.nodes[w.vals["old"]], 0)
					w.apply(w.nodes[w.vals["old"]], 0)
				}),
				stepDo("apply-new-leader", func(w *World) bool { return notOld(w) != nil }, func(w *World) { w.apply(w.leader(), 0) }),
				stepDo("apply-new-leader2", func(w *World) bool { l := notOld(w); return l != nil && l.r.CommitIndex() == l.r.LastIndex() }, func(w *World) { w.apply(w.leader(), 0) }),
				stepDo("snapshot-new-leader", func(w *World) bool {
					l := notOld(w)
					return l != nil && l.r.CommitIndex() == l.r.LastIndex() && l.r.AppliedIndex() == l.r.LastIndex()
				}, func(w *World) { w.snapshot(w.leader()) }),
				stepDo("heal", func(w *World) bool {
					if notOld(w) == nil {
						return false
					}
					for _, c := range w.calls {
						if c.Kind == "snapshot" && !c.Done {
							return false
						}
					}
					return true
				}, func(w *World) { w.isolate(w.vals["old"], false) }),
				stepDo("apply-after-heal", whenSettled, func(w *World) { w.apply(w.leader(), 0) }),
				stepDo("transfer-to-old", func(w *World) bool { return whenSettled(w) && w.converged() }, func(w *World) { w.transfer(w.leader(), w.vals["old"]) }),
				stepDo("add-fresh-server", func(w *World) bool { return whenSettled(w) && w.leader().id == w.vals["old"] }, func(w *World) { w.addNonvoter(w.leader(), 3, 0) }),
				stepDo("apply-final", whenSettled, func(w *World) { w.apply(w.leader(), 0) }),
			}}
	})
}

func urgent(s Step) Step { s.Urgent = true; return s }

func (w *World) cut(a, b int, on bool) {
	if on {
		w.blocked[[2]int{a, b}] = true
		w.blocked[[2]int{b, a}] = true
	} else {
		delete(w.blocked, [2]int{a, b})
		delete(w.blocked, [2]int{b, a})
	}
}

func init() {
	// Figure 8 with one entry per AppendEntries: the old-term tail reaches a majority before the new leader's no-op
	regScenario("fig8-batch1", func() *Scenario {
		sc := scenarioByName("fig8")
		sc.Conf = func(i int, c *raft.Config) { c.MaxAppendEntries = 1 }
		return sc
	})
	// A voter restarts between two vote requests of the same term: n0 wins term 2 with n2's vote while n1 hears
	// nothing; n2 is restarted before n0's AppendEntries reach it; then n1 asks n2 for its vote.
	regScenario("revote3", func() *Scenario {
		return &Scenario{Nodes: voters(3), Devs: DevAll, Horizon: 600, Goal: goalConverged, AutoRestart: true,
			Steps: []Step{
				urgent(stepDo("cut-n0-n1", nil, func(w *World) { w.cut(0, 1, true) })),
				urgent(stepDo("cut-n0-n2-once-elected", func(w *World) bool { l := w.leader(); return l != nil && l.id == 0 }, func(w *World) { w.cut(0, 2, true) })),
				urgent(stepDo("crash-n2", func(w *World) bool { return w.netIdle() }, func(w *World) { w.crash(w.nodes[2]) })),
				urgent(stepDo("restart-n2", nil, func(w *World) { w.start(w.nodes[2]) })),
				stepDo("heal", func(w *World) bool {
					for _, n := range w.nodes[1:] {
						if n.up && n.r != nil && n.r.State() == raft.Leader {
							return true
						}
					}
					return false
				}, func(w *World) { w.cut(0, 1, false); w.cut(0, 2, false) }),
				stepDo("apply", whenSettled, func(w *World) { w.apply(w.leader(), 0) }),
			}}
	})
}

func init() {
	// The Raft paper's Figure 8, step by step: (a) L1 writes x locally; (b) L2 wins the next term and writes only to
	// itself; (c) L1 is re-elected and replicates x to the third server, one entry per request, and fails before its
	// own no-op gets there; (d) L2 returns, wins with the third server's vote and overwrites x. x must never have
	// been reported committed.
	regScenario("fig8-paper", func() *Scenario {
		third := func(w *World) *Node {
			for _, n := range w.nodes {
				if n.id != w.vals["L1"] && n.id != w.vals["L2"] {
					return n
				}
			}
			return nil
		}
		return &Scenario{Nodes: voters(3), Devs: DevAll, Horizon: 900, Goal: goalConverged, AutoRestart: true,
			Conf: func(i int, c *raft.Config) { c.MaxAppendEntries = 1 },
			Steps: []Step{
				stepDo("isolate-L1", whenSettled, func(w *World) { l := w.leader(); w.vals["L1"] = l.id; w.isolate(l.id, true) }),
				stepDo("x-on-L1", func(w *World) bool { return w.nodes[w.vals["L1"]].r.State() == raft.Leader }, func(w *World) { w.apply(w.nodes[w.vals["L1"]], 0) }),
				urgent(stepDo("isolate-L2-at-election", func(w *World) bool {
					for _, n := range w.nodes {
						if n.id != w.vals["L1"] && n.up && n.r != nil && n.r.State() == raft.Leader {
							return true
						}
					}
					return false
				}, func(w *World) {
					for _, n := range w.nodes {
						if n.id != w.vals["L1"] && n.up && n.r != nil && n.r.State() == raft.Leader {
							w.vals["L2"] = n.id
							w.isolate(n.id, true)
						}
					}
				})),
				stepDo("heal-L1", func(w *World) bool { return w.netIdle() }, func(w *World) {
					w.isolate(w.vals["L1"], false)
					w.isolate(w.vals["L2"], true)
				}),
				urgent(stepDo("crash-L1-once-x-is-on-a-majority", func(w *World) bool {
					l1 := w.nodes[w.vals["L1"]]
					if l1.r == nil || l1.r.State() != raft.Leader {
						return false
					}
					d := l1.r.VerifDump()
					return d.NextIndex[third(w).sid] >= 4 && third(w).store.Peek(3) != nil && third(w).store.Peek(3).Term == 2
				}, func(w *World) { w.crash(w.nodes[w.vals["L1"]]) })),
				stepDo("heal-L2", nil, func(w *World) { w.isolate(w.vals["L2"], false); w.isolate(w.vals["L1"], false) }),
				stepDo("restart-L1", whenSettled, func(w *World) { w.start(w.nodes[w.vals["L1"]]) }),
				stepDo("apply-final", whenSettled, func(w *World) { w.apply(w.leader(), 0) }),
			}}
	})
}

func init() {
	slow := func(base string) func() *Scenario {
		return func() *Scenario {
			sc := scenarioByName(base)
			sc.SlowFSM = true
			sc.Horizon += 200
			return sc
		}
	}
	regScenario("write3-slowfsm", slow("write3"))
	regScenario("crash3-slowfsm", slow("crash3"))
	regScenario("transfer-slowfsm", slow("transfer"))
	// a batching FSM that is slow: whatever a batch's futures are told before ApplyBatch ran is visible to the callers
	regScenario("batch-mix-slowfsm", slow("batch-mix"))
	regScenario("batch-lag-slowfsm", slow("batch-lag"))
}

func init() {
	pipe := func(base string) func() *Scenario {
		return func() *Scenario {
			sc := scenarioByName(base)
			sc.Pipeline = true
			return sc
		}
	}
	for _, b := range []string{"write3", "crash3", "snap3", "stale-suffix", "transfer"} {
		regScenario(b+"-pipe", pipe(b))
	}
}

func init() {
	// commit-tracking log store with RestoreCommittedLogs: committed entries are replayed into the FSM by NewRaft
	mkRCL := func(n int, snapshot bool, many bool) func() *Scenario {
		return func() *Scenario {
			steps := []Step{stepApplyLeader("apply1"), stepApplyLeader("apply2")}
			if snapshot {
				steps = append(steps, stepDo("user-snapshot", whenSettled, func(w *World) { w.snapshot(w.leader()) }))
			}
			steps = append(steps, stepApplyLeader("apply3"))
			if many {
				for i := 0; i < 4; i++ {
					steps = append(steps, stepApplyLeader("applyN"))
				}
			}
			steps = append(steps,
				stepDo("crash-all", whenSettled, func(w *World) {
					for _, nd := range w.nodes {
						w.crash(nd)
					}
				}),
				stepDo("restart-all", nil, func(w *World) {
					for _, nd := range w.nodes {
						w.start(nd)
					}
				}),
				stepDo("apply-after-restart", whenSettled, func(w *World) { w.apply(w.leader(), 0) }),
			)
			return &Scenario{Nodes: voters(n), Store: StoreCommitTracking, RCL: true, Devs: DevAll, Horizon: 600, Goal: goalConverged, AutoRestart: true,
				Conf:  func(i int, c *raft.Config) { c.MaxAppendEntries = 1; c.TrailingLogs = 64 },
				Steps: steps}
		}
	}
	regScenario("rcl1", mkRCL(1, false, false))
	regScenario("rcl3", mkRCL(3, false, false))
	regScenario("rcl3-snap", mkRCL(3, true, false))
	regScenario("rcl1-many", mkRCL(1, true, true))
	// life after a RestoreCommittedLogs restart: the restarted servers must still accept a membership change and
	// take snapshots that carry the configuration they act on
	mkAfter := func(n int) func() *Scenario {
		return func() *Scenario {
			ns := append(voters(n), NodeSpec{Suffrage: raft.Nonvoter, StartUp: true})
			return &Scenario{Nodes: ns, Store: StoreCommitTracking, RCL: true, Devs: DevAll, Horizon: 800, Goal: goalConverged, AutoRestart: true, Liveness: true,
				Conf: func(i int, c *raft.Config) { c.MaxAppendEntries = 2; c.TrailingLogs = 0 },
				Steps: []Step{
					stepApplyLeader("apply1"), stepApplyLeader("apply2"),
					stepDo("crash-all", whenSettled, func(w *World) {
						for _, nd := range w.nodes[:n] {
							w.crash(nd)
						}
					}),
					stepDo("restart-all", nil, func(w *World) {
						for _, nd := range w.nodes[:n] {
							w.start(nd)
						}
					}),
					stepDo("add-nonvoter", whenSettled, func(w *World) { w.addNonvoter(w.leader(), n, 0) }),
					stepApplyLeader("apply3"),
					stepDo("user-snapshot", whenSettled, func(w *World) { w.snapshot(w.leader()) }),
					stepApplyLeader("apply4"),
					stepDo("crash-leader", whenSettled, func(w *World) { l := w.leader(); w.vals["rl"] = l.id; w.crash(l) }),
					stepDo("restart-leader", nil, func(w *World) { w.start(w.nodes[w.vals["rl"]]) }),
					stepApplyLeader("apply5"),
				}}
		}
	}
	regScenario("rcl1-after", mkAfter(1))
	regScenario("rcl3-after", mkAfter(3))
}

func init() {
	// more committed entries than the FSM queue holds: NewRaft replays them before runFSM exists
	regScenario("rcl1-130", func() *Scenario {
		return &Scenario{Nodes: voters(1), Store: StoreCommitTracking, RCL: true, Devs: DevCrash | DevStore, Horizon: 400, Goal: goalConverged, AutoRestart: true,
			Conf: func(i int, c *raft.Config) { c.MaxAppendEntries = 1; c.TrailingLogs = 1000 },
			Steps: []Step{
				stepDo("apply-130", whenSettled, func(w *World) {
					l := w.leader()
					w.client(l, "apply-many", "", func(c *Call, r *raft.Raft) {
						for i := 0; i < 130; i++ {
							f := r.Apply([]byte(fmt.Sprintf("m%d", i)), 0)
							if err := f.Error(); err != nil {
								c.Err = err
								return
							}
						}
					})
				}),
				stepDo("crash", whenSettled, func(w *World) { w.crash(w.nodes[0]) }),
				stepDo("restart", nil, func(w *World) { w.start(w.nodes[0]) }),
				stepDo("apply-after-restart", whenSettled, func(w *World) { w.apply(w.leader(), 0) }),
			}}
	})
}

func init() {
	// the library's own InmemStore (behind the hooks) instead of the harness store
	inmem := func(base string) func() *Scenario {
		return func() *Scenario {
			sc := scenarioByName(base)
			sc.Store = StoreInmem
			return sc
		}
	}
	for _, b := range []string{"write3", "crash3", "snap3", "stale-suffix", "majority-restart", "fig8"} {
		regScenario(b+"-inmem", inmem(b))
	}
}

func init() {
	regScenario("stale-suffix-batch1", func() *Scenario {
		sc := scenarioByName("stale-suffix")
		sc.Conf = func(i int, c *raft.Config) { c.TrailingLogs = 64; c.MaxAppendEntries = 1 }
		// no snapshot step: the deposed leader is brought back by plain log replication, one entry per request
		var steps []Step
		for _, st := range sc.Steps {
			if st.Name != "snapshot-new-leader" {
				steps = append(steps, st)
			}
		}
		sc.Steps = steps
		return sc
	})
}

func init() {
	// a snapshot is requested while the FSM is busy, and a membership change commits before the FSM gets to it
	regScenario("snap-member-slowfsm", func() *Scenario {
		ns := append(voters(3), NodeSpec{Suffrage: raft.Nonvoter, StartUp: true})
		committedNotApplied := func(w *World) bool {
			l := w.stableLeader()
			return l != nil && w.netIdle() && l.r.CommitIndex() == l.r.LastIndex() && l.fsm.Asked > l.fsm.Permits
		}
		return &Scenario{Nodes: ns, SlowFSM: true, Devs: DevAll, Horizon: 700, AutoRestart: true,
			Conf: func(i int, c *raft.Config) { c.TrailingLogs = 0 },
			Goal: func(w *World) bool { return w.converged() },
			Steps: []Step{
				stepDo("apply1", whenSettled, func(w *World) { w.apply(w.leader(), 0) }),
				stepDo("snapshot-while-fsm-busy", committedNotApplied, func(w *World) { w.snapshot(w.leader()) }),
				stepDo("add-nonvoter", func(w *World) bool { return w.stableLeader() != nil && w.netIdle() }, func(w *World) { w.addNonvoter(w.leader(), 3, 0) }),
				stepDo("apply2", func(w *World) bool {
					l := w.stableLeader()
					return l != nil && w.netIdle() && l.r.CommitIndex() == l.r.LastIndex()
				}, func(w *World) { w.apply(w.leader(), 0) }),
				stepDo("restart-leader", func(w *World) bool { return whenSettled(w) }, func(w *World) {
					l := w.leader()
					w.vals["rl"] = l.id
					w.crash(l)
				}),
				stepDo("start-again", nil, func(w *World) { w.start(w.nodes[w.vals["rl"]]) }),
				stepDo("apply3", whenSettled, func(w *World) { w.apply(w.leader(), 0) }),
			}}
	})
	// VerifyLeader on a leader that a reachable server in a newer term is about to depose
	regScenario("verify-deposed", func() *Scenario {
		ns := voters(3)
		ns[2].PreVoteDisabled = true
		return &Scenario{Nodes: ns, Devs: DevAllNet | DevTimer | DevStepEarly, Horizon: 700, Liveness: true,
			Goal: func(w *World) bool { return w.scriptDone() && w.callsDone() && w.converged() },
			Steps: []Step{
				stepApplyLeader("apply1"),
				stepDo("isolate-n2", func(w *World) bool { return whenSettled(w) && w.leader().id != 2 }, func(w *World) { w.isolate(2, true) }),
				urgent(stepDo("n2-back-n1-cut+verify", func(w *World) bool {
					l := w.leader()
					return l != nil && w.nodes[2].r.CurrentTerm() > l.r.CurrentTerm()
				}, func(w *World) {
					l := w.leader()
					w.vals["L"] = l.id
					w.isolate(2, false)
					for _, o := range w.nodes {
						if o.id != l.id && o.id != 2 {
							w.cut(l.id, o.id, true)
						}
					}
					w.verify(l)
				})),
				stepDo("heal", func(w *World) bool { return w.callsDone() }, func(w *World) {
					for k := range w.blocked {
						delete(w.blocked, k)
					}
				}),
				stepDo("apply-final", whenSettled, func(w *World) { w.apply(w.leader(), 0) }),
			}}
	})
}

func init() {
	// a configuration entry reaches one follower only, its leader is deposed, and the next leader has an entry of
	// its own term at that index: the follower's first conflicting entry is the configuration entry itself
	regScenario("member-trunc5", func() *Scenario {
		ns := append(voters(5), NodeSpec{Suffrage: raft.Nonvoter, StartUp: true})
		return &Scenario{Nodes: ns, Devs: DevAll, Horizon: 900, Goal: goalConverged, AutoRestart: true,
			Steps: []Step{
				stepApplyLeader("apply1"),
				stepDo("pair-off-leader-and-one-follower", whenSettled, func(w *World) {
					l := w.leader()
					f := w.aFollower()
					w.vals["L1"], w.vals["F"] = l.id, f.id
					for _, o := range w.nodes {
						if o.id != l.id && o.id != f.id {
							w.cut(l.id, o.id, true)
							w.cut(f.id, o.id, true)
						}
					}
					w.addNonvoter(l, 5, 0)
				}),
				stepDo("cut-the-pair-apart", func(w *World) bool {
					f := w.nodes[w.vals["F"]]
					l := f.store.Peek(f.store.Hi())
					return w.netIdle() && l != nil && l.Type == raft.LogConfiguration && f.store.Hi() > 1
				}, func(w *World) { w.cut(w.vals["L1"], w.vals["F"], true) }),
				stepDo("follower-rejoins-the-majority", func(w *World) bool {
					l := w.stableLeader()
					return l != nil && l.id != w.vals["L1"] && l.id != w.vals["F"] && w.netIdle()
				}, func(w *World) {
					f := w.vals["F"]
					for _, o := range w.nodes {
						if o.id != f && o.id != w.vals["L1"] {
							w.cut(f, o.id, false)
						}
					}
				}),
				stepDo("heal-all", func(w *World) bool { return w.netIdle() }, func(w *World) {
					for k := range w.blocked {
						delete(w.blocked, k)
					}
				}),
				stepDo("apply-final", whenSettled, func(w *World) { w.apply(w.leader(), 0) }),
			}}
	})
}

func init() {
	// as member-trunc5, but the new leader snapshots and compacts past the stale configuration entry before the
	// follower rejoins: the follower loses that entry through InstallSnapshot, not through AppendEntries truncation
	regScenario("member-trunc5-snap", func() *Scenario {
		sc := scenarioByName("member-trunc5")
		sc.Conf = func(i int, c *raft.Config) { c.TrailingLogs = 0 }
		newLeaderIdle := func(w *World) bool {
			l := w.stableLeader()
			return l != nil && l.id != w.vals["L1"] && l.id != w.vals["F"] && w.netIdle() && l.r.CommitIndex() == l.r.LastIndex()
		}
		var steps []Step
		for _, st := range sc.Steps {
			if st.Name == "follower-rejoins-the-majority" {
				steps = append(steps,
					stepDo("new-leader-apply-a", newLeaderIdle, func(w *World) { w.apply(w.leader(), 0) }),
					stepDo("new-leader-apply-b", newLeaderIdle, func(w *World) { w.apply(w.leader(), 0) }),
					stepDo("new-leader-snapshot", newLeaderIdle, func(w *World) { w.vals["snapc"] = w.snapshot(w.leader()).ID }),
				)
				inner := st.When
				st.When = func(w *World) bool { return w.calls[w.vals["snapc"]].Done && inner(w) }
			}
			steps = append(steps, st)
		}
		sc.Steps = steps
		sc.Horizon = 1100
		return sc
	})
}

func init() {
	// Six voters. A removal (6 -> 5 voters: the quorum drops from 4 to 3) reaches one follower F only and is then
	// overwritten there by the next leader, so F is back to the six-voter configuration. F is then cut off together
	// with two other voters: three of six are no majority - F must neither be elected nor commit anything there.
	regScenario("member-trunc6", func() *Scenario {
		return &Scenario{Nodes: voters(6), Devs: DevAll, Horizon: 1400, AutoRestart: true,
			Goal: func(w *World) bool { return w.vals["healed"] == 1 && w.converged() },
			Steps: []Step{
				stepApplyLeader("apply1"),
				stepDo("pair-off-leader-and-one-follower+remove-X", whenSettled, func(w *World) {
					l := w.leader()
					f := w.aFollower()
					w.vals["L1"], w.vals["F"] = l.id, f.id
					var rest []int
					for _, o := range w.nodes {
						if o.id != l.id && o.id != f.id {
							rest = append(rest, o.id)
							w.cut(l.id, o.id, true)
							w.cut(f.id, o.id, true)
						}
					}
					w.vals["X"], w.vals["P"], w.vals["Q"] = rest[0], rest[1], rest[2]
					w.remove(l, rest[0], 0)
				}),
				stepDo("cut-the-pair-apart", func(w *World) bool {
					f := w.nodes[w.vals["F"]]
					l := f.store.Peek(f.store.Hi())
					return w.netIdle() && l != nil && l.Type == raft.LogConfiguration && f.store.Hi() > 1
				}, func(w *World) { w.cut(w.vals["L1"], w.vals["F"], true) }),
				stepDo("follower-rejoins-the-majority", func(w *World) bool {
					l := w.stableLeader()
					return l != nil && l.id != w.vals["L1"] && l.id != w.vals["F"] && w.netIdle()
				}, func(w *World) {
					f := w.vals["F"]
					w.vals["L2"] = w.stableLeader().id
					for _, o := range w.nodes {
						if o.id != f && o.id != w.vals["L1"] {
							w.cut(f, o.id, false)
						}
					}
				}),
				stepDo("F-with-two-others-only", func(w *World) bool {
					l := w.stableLeader()
					f := w.nodes[w.vals["F"]]
					return l != nil && l.id == w.vals["L2"] && w.netIdle() && f.r != nil && f.r.LastIndex() == l.r.LastIndex() && f.r.CommitIndex() == l.r.CommitIndex()
				}, func(w *World) {
					// two voters other than the removed-then-restored X, the old leader and the current leader
					var side []int
					for _, id := range []int{w.vals["P"], w.vals["Q"], w.vals["X"]} {
						if id != w.vals["L2"] && len(side) < 2 {
							side = append(side, id)
						}
					}
					in := map[int]bool{w.vals["F"]: true, side[0]: true, side[1]: true}
					for _, a := range w.nodes {
						for _, b := range w.nodes {
							if a.id < b.id {
								w.cut(a.id, b.id, in[a.id] != in[b.id] || (!in[a.id] && (a.id == w.vals["L1"] || b.id == w.vals["L1"])))
							}
						}
					}
					w.vals["split"] = w.events
				}),
				stepDo("heal-all", func(w *World) bool { return w.vals["split"] > 0 && w.events > w.vals["split"]+250 }, func(w *World) {
					for k := range w.blocked {
						delete(w.blocked, k)
					}
					w.vals["healed"] = 1
				}),
				stepDo("apply-final", whenSettled, func(w *World) { w.apply(w.leader(), 0) }),
			}}
	})
}

func init() {
	// Two one-server changes proposed from the same four-voter configuration C by leaders of different terms (the
	// hazard behind "a leader accepts a membership change only after committing an entry of its own term"):
	// s1 appends D = C - {X} to its own log only and is cut off; N wins the next term, its no-op reaches one
	// follower Z only (2 of 4) and, in that window, N is asked for E = C - {s1}; s1 then restarts next to Y, the
	// follower that has seen nothing of N. If N had accepted E early, E commits on {N, Z} and is acknowledged,
	// while s1 wins a later term under D with Y's vote and lacks E.
	regScenario("member-early4", func() *Scenario {
		return &Scenario{Nodes: voters(4), Devs: DevAll, Horizon: 1400,
			Goal: func(w *World) bool { return w.vals["healed"] == 1 && w.converged() },
			Steps: []Step{
				stepApplyLeader("apply1"),
				stepDo("isolate-s1+remove-X-on-s1", whenSettled, func(w *World) {
					l := w.leader()
					w.vals["s1"] = l.id
					x := w.aFollower().id
					w.vals["X"] = x
					w.isolate(l.id, true)
					w.remove(l, x, 0)
				}),
				urgent(stepDo("cut-new-leader-from-Y", func(w *World) bool {
					l := w.leader()
					return l != nil && l.id != w.vals["s1"]
				}, func(w *World) {
					n := w.leader().id
					w.vals["N"] = n
					var others []int
					for _, o := range w.nodes {
						if o.id != n && o.id != w.vals["s1"] {
							others = append(others, o.id)
						}
					}
					y, z := others[0], others[1]
					if y == w.vals["X"] { // Y must be a voter of D
						y, z = z, y
					}
					w.vals["Y"], w.vals["Z"] = y, z
					w.cut(n, y, true)
				})),
				stepDo("remove-s1-on-new-leader", func(w *World) bool {
					n := w.nodes[w.vals["N"]]
					return n.up && n.r.State() == raft.Leader && w.netIdle()
				}, func(w *World) {
					w.remove(w.nodes[w.vals["N"]], w.vals["s1"], 0)
					w.vals["mark"] = w.events
				}),
				stepDo("restart-s1-next-to-Y", func(w *World) bool { return w.netIdle() && w.events >= w.vals["mark"]+4 }, func(w *World) {
					s1 := w.nodes[w.vals["s1"]]
					w.crash(s1)
					w.start(s1)
					w.cut(s1.id, w.vals["Y"], false)
					w.vals["mark2"] = w.events
				}),
				stepDo("heal-all", func(w *World) bool {
					s1 := w.nodes[w.vals["s1"]]
					return w.events >= w.vals["mark2"]+40 && (w.events >= w.vals["mark2"]+400 || (s1.r != nil && s1.r.State() == raft.Leader && w.netIdle()))
				}, func(w *World) {
					for k := range w.blocked {
						delete(w.blocked, k)
					}
					w.vals["healed"] = 1
				}),
				stepDo("apply-final", whenSettled, func(w *World) { w.apply(w.leader(), 0) }),
			}}
	})
}

func init() {
	// even number of voters: a majority of 4 is 3
	regScenario("write4", func() *Scenario {
		sc := scenarioByName("write3")
		sc.Nodes = voters(4)
		return sc
	})
	regScenario("crash4", func() *Scenario {
		sc := scenarioByName("crash3")
		sc.Nodes = voters(4)
		sc.Horizon = 500
		return sc
	})
	// automatic snapshots (threshold/interval) on every server, compaction with one trailing entry
	regScenario("autosnap3", func() *Scenario {
		return &Scenario{Nodes: voters(3), Devs: DevAll, Horizon: 700, Goal: goalConverged, AutoRestart: true,
			Conf: func(i int, c *raft.Config) {
				c.SnapshotThreshold = 2
				c.SnapshotInterval = 30 * time.Millisecond
				c.TrailingLogs = 1
				c.MaxAppendEntries = 2
			},
			Steps: []Step{
				stepApplyLeader("apply1"), stepApplyLeader("apply2"), stepApplyLeader("apply3"),
				stepDo("isolate-follower", whenSettled, func(w *World) { f := w.aFollower(); w.vals["iso"] = f.id; w.isolate(f.id, true) }),
				stepApplyLeader("apply4"), stepApplyLeader("apply5"), stepApplyLeader("apply6"),
				stepDo("wait-for-leader-snapshot+heal", func(w *World) bool {
					l := w.stableLeader()
					if l == nil || !w.netIdle() {
						return false
					}
					s := l.snaps.Newest()
					return s != nil && s.meta.Index >= 6
				}, func(w *World) { w.isolate(w.vals["iso"], false) }),
				stepDo("apply7", whenSettled, func(w *World) { w.apply(w.leader(), 0) }),
			}}
	})
	// the leader removes itself with ShutdownOnRemove
	regScenario("member-sor", func() *Scenario {
		return &Scenario{Nodes: voters(3), Devs: DevAll, Horizon: 600, AutoRestart: false,
			Conf: func(i int, c *raft.Config) { c.ShutdownOnRemove = true },
			Goal: func(w *World) bool {
				if !w.scriptDone() || !w.callsDone() {
					return false
				}
				l := w.stableLeader()
				return l != nil && l.id != w.vals["removed"] && l.r.CommitIndex() == l.r.LastIndex()
			},
			Steps: []Step{
				stepApplyLeader("apply1"),
				stepDo("leader-removes-itself", whenSettled, func(w *World) { l := w.leader(); w.vals["removed"] = l.id; w.remove(l, l.id, 0) }),
				stepDo("apply-on-new-leader", func(w *World) bool {
					l := w.stableLeader()
					return l != nil && l.id != w.vals["removed"] && w.netIdle()
				}, func(w *World) { w.apply(w.leader(), 0) }),
			}}
	})
}

func init() {
	hb := func(base string) func() *Scenario {
		return func() *Scenario {
			sc := scenarioByName(base)
			sc.HBFastPath = true
			return sc
		}
	}
	for _, b := range []string{"elect3", "write3", "crash3", "transfer"} {
		regScenario(b+"-hb", hb(b))
	}
}

func init() {
	// one FSM batch that mixes commands, a barrier and a configuration entry (batching FSM, responses must stay paired)
	mkMix := func(fsm FSMKind) func() *Scenario {
		return func() *Scenario {
			ns := append(voters(3), NodeSpec{Suffrage: raft.Nonvoter, StartUp: true})
			return &Scenario{Nodes: ns, FSM: fsm, Devs: DevAll, Horizon: 500, Goal: goalConverged, AutoRestart: true,
				Conf: func(i int, c *raft.Config) { c.MaxAppendEntries = 8; c.BatchApplyCh = true },
				Steps: []Step{
					stepApplyLeader("apply0"),
					stepDo("apply+barrier+apply+addnonvoter+apply", whenSettled, func(w *World) {
						l := w.leader()
						w.apply(l, 0)
						w.barrier(l)
						w.apply(l, 0)
						w.addNonvoter(l, 3, 0)
						w.apply(l, 0)
						w.apply(l, 0)
					}),
					stepDo("apply-last", whenSettled, func(w *World) { w.apply(w.leader(), 0) }),
				}}
		}
	}
	regScenario("batch-mix", mkMix(FSMBatching))
	// the same with barriers late in the burst, so that a barrier shares an FSM batch with commands that precede it
	// (the first two entries of a burst are dispatched on their own, the rest commit together)
	mkMix2 := func(fsm FSMKind, slow bool) func() *Scenario {
		return func() *Scenario {
			sc := mkMix(fsm)()
			sc.SlowFSM = slow
			sc.Horizon += 200
			sc.Steps[1] = stepDo("apply+apply+apply+barrier+addnonvoter+apply+barrier", whenSettled, func(w *World) {
				l := w.leader()
				w.apply(l, 0)
				w.apply(l, 0)
				w.apply(l, 0)
				w.barrier(l)
				w.addNonvoter(l, 3, 0)
				w.apply(l, 0)
				w.barrier(l)
			})
			return sc
		}
	}
	regScenario("batch-mix2", mkMix2(FSMBatching, false))
	regScenario("batch-mix2-slowfsm", mkMix2(FSMBatching, true))
	regScenario("batch-mix2-plain-slowfsm", mkMix2(FSMPlain, true))
	// A new leader applies an old-term entry it had stored but not yet applied (no caller waits for it on this
	// server) in the same FSM batch as a fresh client command: the old leader crashes right after acknowledging
	// apply2, before the followers learn that it is committed, and apply3 is submitted as soon as a new leader
	// exists. If the new leader's first AppendEntries is lost, its no-op and apply3 commit in one step and the
	// batch is [apply2 (no future), apply3 (future)]; the caller of apply3 must get apply3's response.
	mkLag := func(fsm FSMKind) func() *Scenario {
		return func() *Scenario {
			return &Scenario{Nodes: voters(3), FSM: fsm, Devs: DevAll, Horizon: 500, Goal: func(w *World) bool { return w.vals["a3"] == 1 && w.converged() },
				Conf: func(i int, c *raft.Config) { c.MaxAppendEntries = 8 },
				Steps: []Step{
					stepApplyLeader("apply1"),
					stepDo("apply2", whenSettled, func(w *World) {
						l := w.leader()
						w.vals["old"] = l.id
						w.vals["c2"] = w.apply(l, 0).ID
					}),
					urgent(stepDo("crash-old-leader", func(w *World) bool { return w.calls[w.vals["c2"]].Done }, func(w *World) {
						w.crash(w.nodes[w.vals["old"]])
					})),
					urgent(stepDo("apply3-on-new-leader", func(w *World) bool {
						l := w.leader()
						return l != nil && l.id != w.vals["old"]
					}, func(w *World) {
						w.apply(w.leader(), 0)
						w.vals["a3"] = 1
					})),
					stepDo("restart-old", whenSettled, func(w *World) { w.start(w.nodes[w.vals["old"]]) }),
					stepApplyLeader("apply4"),
				}}
		}
	}
	regScenario("batch-lag", mkLag(FSMBatching))
	regScenario("batch-lag-plain", mkLag(FSMPlain))
	regScenario("batch-mix-plain", mkMix(FSMPlain))
	regScenario("batch-mix-cfgstore", mkMix(FSMConfigStore))
}

func init() {
	// A follower that has applied entries above the leader's snapshot rejects writes for a while (its log store
	// fails): the leader walks its nextIndex back one failed AppendEntries at a time, falls below its own
	// compaction point and ships a snapshot whose index is BELOW what the follower has already applied. The
	// follower's FSM goes back to the snapshot and must be given the entries above it again.
	regScenario("snap3-storefail", func() *Scenario {
		return &Scenario{Nodes: voters(3), Devs: DevAll, Horizon: 900, Goal: goalConverged, AutoRestart: true,
			Conf: func(i int, c *raft.Config) { c.TrailingLogs = 0; c.MaxAppendEntries = 2 },
			Steps: []Step{
				stepApplyLeader("apply1"), stepApplyLeader("apply2"),
				stepDo("leader-snapshot", whenSettled, func(w *World) { w.snapshot(w.leader()) }),
				stepApplyLeader("apply3"),
				stepDo("follower-store-fails+apply4", whenSettled, func(w *World) {
					f := w.aFollower()
					w.vals["F"] = f.id
					w.vals["failstore"] = f.id + 1
					w.apply(w.leader(), 0)
				}),
				stepDo("follower-store-recovers", func(w *World) bool {
					for _, m := range w.msgs {
						if m.Kind == "IS" && m.To == w.vals["F"] && m.St == mReplied {
							return true
						}
					}
					return false
				}, func(w *World) { w.vals["failstore"] = 0 }),
				stepDo("apply5", whenSettled, func(w *World) { w.apply(w.leader(), 0) }),
			}}
	})
}
