package main

import (
	"encoding/json"
	"fmt"
	"github.com/hashicorp/raft/zzverif/vsched"
	"sort"
	"time"

	"github.com/hashicorp/raft"
)

// C06: the real RequestVote / RequestPreVote / AppendEntries handlers on a Raft without
// goroutines over a VStore; every short message sequence over every small persisted state,
// with a crash-restart or an injected write error at every stable-store write.

type c06msg struct {
	Kind     string `json:"kind"`        // rv | pv | ae
	TermOff  int    `json:"term_offset"` // relative to the initial current term: -1..+2
	Cand     string `json:"from"`
	CandLog  int    `json:"cand_log"` // -1 behind, 0 equal, +1 ahead (relative to the voter's log at the start)
	Transfer bool   `json:"transfer,omitempty"`
}

type c06fault struct {
	At   int    `json:"at_write"` // n-th stable-store write of the whole run (1-based)
	Kind string `json:"kind"`     // error | crash-before | crash-after
}

type c06case struct {
	Term     uint64     `json:"term"`
	VoteTerm uint64     `json:"vote_term"`
	VoteCand string     `json:"vote_cand"`
	Log      int        `json:"log_shape"` // 0..3
	Cfg      int        `json:"cfg"`       // 0: {n0,A,B voters} 1: B non-voter 2: no configuration
	Msgs     []c06msg   `json:"msgs"`
	Faults   []c06fault `json:"faults,omitempty"`
}

type crashSignal struct{}

type c06hooks struct {
	writes     int
	faults     []c06fault
	crashAfter bool
}

func (h *c06hooks) Answer(node int, op string, mayFail bool) Fault {
	if len(op) < 3 || (op[:3] != "Set") {
		return FaultNone
	}
	h.writes++
	for _, f := range h.faults {
		if f.At == h.writes {
			switch f.Kind {
			case "error":
				return FaultError
			case "crash-before":
				panic(crashSignal{})
			case "crash-after":
				return FaultCrashAfter
			}
		}
	}
	return FaultNone
}
func (h *c06hooks) CrashNow(node int)                                               { panic(crashSignal{}) }
func (h *c06hooks) OnStoreLogs(node int, logs []*raft.Log)                          {}
func (h *c06hooks) OnDeleteRange(node int, min, max uint64, removed []*raft.Log)    {}
func (h *c06hooks) OnStableSet(node int, key string, val []byte)                    {}
func (h *c06hooks) OnSnapshotDurable(node int, meta raft.SnapshotMeta, data []byte) {}

func c06cfg(kind int) *raft.Configuration {
	switch kind {
	case 0:
		return &raft.Configuration{Servers: []raft.Server{{Suffrage: raft.Voter, ID: "n0", Address: "n0"}, {Suffrage: raft.Voter, ID: "A", Address: "A"}, {Suffrage: raft.Voter, ID: "B", Address: "B"}}}
	case 1:
		return &raft.Configuration{Servers: []raft.Server{{Suffrage: raft.Voter, ID: "n0", Address: "n0"}, {Suffrage: raft.Voter, ID: "A", Address: "A"}, {Suffrage: raft.Nonvoter, ID: "B", Address: "B"}}}
	}
	return nil
}

// log shapes: terms of entries 1..n (entry 1 is the configuration entry when there is one)
var c06logs = [][]uint64{{1}, {1, 1}, {1, 2}, {1, 1, 2}}

func stableImage(vs *VStore) string {
	var ks []string
	for k, v := range vs.kv {
		ks = append(ks, fmt.Sprintf("%s=%s", k, v))
	}
	for k, v := range vs.kvU {
		ks = append(ks, fmt.Sprintf("%s=%d", k, v))
	}
	sort.Strings(ks)
	return fmt.Sprint(ks)
}

// runC06 returns (signature suffix, description); "" = no violation.
func runC06(c c06case) (string, string) {
	vs := NewVStore(0, StorePlain, nil)
	cfg := c06cfg(c.Cfg)
	for i, t := range c06logs[c.Log] {
		idx := uint64(i + 1)
		l := &raft.Log{Index: idx, Term: t, Type: raft.LogCommand, Data: []byte("x")}
		if idx == 1 && cfg != nil {
			l.Type = raft.LogConfiguration
			l.Data = raft.EncodeConfiguration(*cfg)
		}
		vs.logs[idx] = l
	}
	vs.recomputeBounds()
	vs.kvU["CurrentTerm"] = c.Term
	if c.VoteTerm > 0 {
		vs.kvU["LastVoteTerm"] = c.VoteTerm
		vs.kv["LastVoteCand"] = []byte(c.VoteCand)
	}
	snaps := NewVSnap(0, nil)
	hooks := &c06hooks{faults: c.Faults}
	defer func() { c06lastWrites = hooks.writes }()
	var r *raft.Raft
	boot := func() string {
		vs.hooks = nil
		var err error
		r, err = dummyRaft(vs.LogStore(), vs, snaps)
		vs.hooks = hooks
		if err != nil {
			return "NewRaft: " + err.Error()
		}
		return ""
	}
	if d := boot(); d != "" {
		return "", d
	}
	grants := map[uint64]string{}
	if c.VoteTerm > 0 {
		// the durable record says: in VoteTerm the vote went to VoteCand
		grants[c.VoteTerm] = c.VoteCand
	}
	lastTermSeen := c.Term
	lt := c06logs[c.Log]
	vLastIdx, vLastTerm := uint64(len(lt)), lt[len(lt)-1]
	for mi, m := range c.Msgs {
		term := uint64(int(c.Term) + m.TermOff)
		if m.Kind == "elect" {
			term = lastTermSeen + 1 // the term the server will stand for
		}
		if term == 0 {
			continue
		}
		for _, f := range c.Faults {
			if f.Kind == "restart" && f.At == -(mi+1) {
				// the process is restarted between two messages (after the previous reply left)
				if d := boot(); d != "" {
					return "", d
				}
				if t := r.CurrentTerm(); t < lastTermSeen {
					return ":term-decreased-after-restart", fmt.Sprintf("restarted before message %d: term %d, it had reported %d", mi, t, lastTermSeen)
				}
			}
		}
		hdr := raft.RPCHeader{ProtocolVersion: 3, ID: []byte(m.Cand), Addr: []byte(m.Cand)}
		// candidate log relative to the voter's
		ci, ct := vLastIdx, vLastTerm
		switch m.CandLog {
		case -1:
			if vLastIdx > 1 {
				ci = vLastIdx - 1
				ct = lt[ci-1]
			} else {
				ci, ct = 0, 0
			}
		case 1:
			ci = vLastIdx + 1
		}
		var cmd interface{}
		switch m.Kind {
		case "rv":
			cmd = &raft.RequestVoteRequest{RPCHeader: hdr, Term: term, Candidate: []byte(m.Cand), LastLogIndex: ci, LastLogTerm: ct, LeadershipTransfer: m.Transfer}
		case "pv":
			cmd = &raft.RequestPreVoteRequest{RPCHeader: hdr, Term: term, LastLogIndex: ci, LastLogTerm: ct}
		case "ae":
			cmd = &raft.AppendEntriesRequest{RPCHeader: hdr, Term: term, Leader: []byte(m.Cand)}
		}
		before := stableImage(vs)
		crashed := false
		var respI interface{}
		func() {
			defer func() {
				if v := recover(); v != nil {
					if _, ok := v.(crashSignal); ok {
						crashed = true
						return
					}
					if e, ok := v.(error); ok && len(e.Error()) > 0 && (contains(e.Error(), "failed to save current term")) {
						crashed = true // deliberate fail-stop on a failed durable write
						return
					}
					panic(v)
				}
			}()
			if m.Kind == "elect" {
				// electSelf asks every other voter from a goroutine of its own: let those run (their RPC is
				// refused at once) so that they do not pile up across millions of cases
				r.VerifElectSelf()
				vsched.WaitAlways("electself-goroutines", func() bool { return len(vsched.G.Live(nil)) <= 1 })
				return
			}
			respI, _ = r.VerifProcessRPC(cmd)
		}()
		if crashed {
			if d := boot(); d != "" {
				return "", d
			}
			if t := r.CurrentTerm(); t < lastTermSeen {
				return ":term-decreased-after-restart", fmt.Sprintf("after a crash during message %d the restarted server reports term %d, it had reported %d", mi, t, lastTermSeen)
			}
			continue
		}
		if m.Kind == "elect" {
			// the server voted for itself in the term it now reports (only a voter of its own configuration does)
			if t := r.CurrentTerm(); t > lastTermSeen && string(vs.kv["LastVoteCand"]) == "n0" && vs.kvU["LastVoteTerm"] == t {
				if prev, dup := grants[t]; dup && prev != "n0" {
					return ":two-grants-one-term", fmt.Sprintf("message %d: the server votes for itself in term %d, but that term's vote had gone to %s", mi, t, prev)
				}
				grants[t] = "n0"
			}
		}
		switch resp := respI.(type) {
		case *raft.RequestVoteResponse:
			if resp.Term < lastTermSeen {
				return ":term-decreased", fmt.Sprintf("message %d: reply carries term %d after term %d was reported", mi, resp.Term, lastTermSeen)
			}
			if resp.Granted {
				prev, dup := grants[term]
				if dup && prev != m.Cand {
					return ":two-grants-one-term", fmt.Sprintf("message %d: vote of term %d granted to %s, but it had gone to %s", mi, term, m.Cand, prev)
				}
				grants[term] = m.Cand
				if dup {
					continue // a repeated grant to the candidate that already holds this term's vote
				}
				if term < lastTermSeen {
					return ":grant-in-old-term", fmt.Sprintf("message %d: vote granted for term %d although term %d was already reported", mi, term, lastTermSeen)
				}
				// log at least as up-to-date as the voter's
				if ct < vLastTerm || (ct == vLastTerm && ci < vLastIdx) {
					sig := ":grant-to-stale-log"
					if c.VoteTerm > 0 || len(c.Faults) > 0 {
						sig = ":grant-to-stale-log-via-vote-record"
					}
					return sig, fmt.Sprintf("message %d: vote of term %d granted to %s whose log (%d,t%d) is behind the voter's (%d,t%d)", mi, term, m.Cand, ci, ct, vLastIdx, vLastTerm)
				}
				// voting member of the voter's configuration
				if cfg != nil {
					ok := false
					for _, s := range cfg.Servers {
						if string(s.ID) == m.Cand && s.Suffrage == raft.Voter {
							ok = true
						}
					}
					if !ok {
						return ":grant-to-non-voter", fmt.Sprintf("message %d: vote of term %d granted to %s who is not a voter of %v", mi, term, m.Cand, cfg.Servers)
					}
				}
			}
		case *raft.RequestPreVoteResponse:
			if after := stableImage(vs); after != before {
				return ":prevote-changed-durable-state", fmt.Sprintf("message %d: pre-vote changed the stable store from %s to %s", mi, before, after)
			}
		}
		if t := r.CurrentTerm(); t < lastTermSeen {
			return ":term-decreased", fmt.Sprintf("after message %d the server reports term %d, it had reported %d", mi, t, lastTermSeen)
		} else {
			lastTermSeen = t
		}
		// the durable term never lags what was reported
		if dt := vs.kvU["CurrentTerm"]; dt < lastTermSeen {
			return ":reported-term-not-durable", fmt.Sprintf("after message %d the server reports term %d but the durable term is %d", mi, lastTermSeen, dt)
		}
	}
	return "", ""
}

func contains(s, sub string) bool {
	for i := 0; i+len(sub) <= len(s); i++ {
		if s[i:i+len(sub)] == sub {
			return true
		}
	}
	return false
}

func c06messages() []c06msg {
	var out []c06msg
	for _, off := range []int{-1, 0, 1, 2} {
		for _, cand := range []string{"A", "B", "Z"} {
			for _, cl := range []int{-1, 0, 1} {
				out = append(out, c06msg{Kind: "rv", TermOff: off, Cand: cand, CandLog: cl})
				if cl == 0 {
					out = append(out, c06msg{Kind: "rv", TermOff: off, Cand: cand, CandLog: cl, Transfer: true})
				}
				out = append(out, c06msg{Kind: "pv", TermOff: off, Cand: cand, CandLog: cl})
			}
		}
		for _, ld := range []string{"A", "B"} {
			out = append(out, c06msg{Kind: "ae", TermOff: off, Cand: ld})
		}
	}
	// the server's own election timeout: it stands for election itself
	out = append(out, c06msg{Kind: "elect", Cand: "n0"})
	return out
}

func enumC06(ctx *CheckCtx, shard, of int) *Stats {
	st := newStats()
	msgs := c06messages()
	depth := 2
	maxFaults := 1
	if ctx.Tier == "thorough" {
		maxFaults = 2
	}
	type vote struct {
		t uint64
		c string
	}
	n := 0
	report := func(c c06case, sig, d string) bool {
		v := Violation{Prop: "C06", Sig: "vote-handler" + sig, Msg: d}
		if ctx.Known != nil && ctx.Known.Matches(v) {
			st.Known[v.Prop+" "+v.Sig]++
			return false
		}
		st.Violations = append(st.Violations, FoundViolation{Violation: v, Scenario: "enum-votes", Case: c})
		return true
	}
	var seqs [][]c06msg
	for _, a := range msgs {
		seqs = append(seqs, []c06msg{a})
		for _, b := range msgs {
			seqs = append(seqs, []c06msg{a, b})
		}
	}
	_ = depth
	if ctx.Tier == "thorough" {
		// length 3 over the vote messages only
		for _, a := range msgs {
			for _, b := range msgs {
				for _, c := range msgs {
					if a.Kind == "rv" && b.Kind != "pv" && c.Kind == "rv" && a.TermOff >= 0 && a.TermOff <= 1 && c.TermOff >= 0 && c.TermOff <= 1 {
						seqs = append(seqs, []c06msg{a, b, c})
					}
				}
			}
		}
	}
	for _, term := range []uint64{1, 2} {
		for _, v := range []vote{{0, ""}, {1, "A"}, {2, "A"}, {2, "B"}} {
			if v.t > term {
				continue
			}
			for lg := range c06logs {
				if c06logs[lg][len(c06logs[lg])-1] > term {
					continue
				}
				for cfg := 0; cfg < 3; cfg++ {
					for _, seq := range seqs {
						if !c06consistent(seq) {
							continue
						}
						n++
						if of > 1 && n%of != shard {
							continue
						}
						if n%64 == 0 && !ctx.Deadline.IsZero() && time.Now().After(ctx.Deadline) {
							st.Capped = true
							return st
						}
						maxFaults := maxFaults
						if len(seq) >= 3 {
							maxFaults = 1 // two faults only on sequences of one or two messages
						}
						base := c06case{Term: term, VoteTerm: v.t, VoteCand: v.c, Log: lg, Cfg: cfg, Msgs: seq}
						// fault-free run first, counting writes
						st.Execs++
						st.Transitions += len(seq)
						sig0, d0 := runC06(base)
						w := c06lastWrites
						if d0 != "" {
							if report(base, sig0, d0) {
								return st
							}
						}
						st.Keys[hash64(fmt.Sprint(term, v, lg, cfg, seq))] = true
						var place func(from int, fs []c06fault)
						stop := false
						place = func(from int, fs []c06fault) {
							if stop || len(fs) >= maxFaults {
								return
							}
							for at := from; at <= w+1 && !stop; at++ {
								for _, k := range []string{"error", "crash-before", "crash-after"} {
									c := base
									c.Faults = append(append([]c06fault{}, fs...), c06fault{At: at, Kind: k})
									st.Execs++
									st.Transitions += len(seq)
									if sig, d := runC06(c); d != "" {
										if report(c, sig, d) {
											stop = true
											return
										}
									}
									place(at+1, c.Faults)
								}
							}
						}
						place(1, nil)
						if stop {
							return st
						}
						// a plain restart between two messages
						for mi := 1; mi < len(seq); mi++ {
							c := base
							c.Faults = []c06fault{{At: -(mi + 1), Kind: "restart"}}
							st.Execs++
							st.Transitions += len(seq)
							if sig, d := runC06(c); d != "" {
								if report(c, sig, d) {
									return st
								}
							}
						}
						if len(st.Samples) < 2 && len(seq) == 2 && seq[0].Kind == "rv" && seq[1].Kind == "rv" && seq[0].TermOff == 1 {
							b, _ := json.Marshal(base)
							st.Samples = append(st.Samples, b)
						}
					}
				}
			}
		}
	}
	st.Outcomes["all"]++
	return st
}

var c06lastWrites int

func replayC06(m map[string]any) (string, bool) {
	b, _ := json.Marshal(m)
	var c c06case
	if err := json.Unmarshal(b, &c); err != nil {
		return err.Error(), false
	}
	_, d := runC06(c)
	return d, d != ""
}

func init() {
	enumReplays["enum-votes"] = replayC06
	register(&Check{Prop: "C06", Level: "model_checking",
		Rule:        "exhaustive enumeration on the real RequestVote/RequestPreVote/AppendEntries handlers (Raft built without goroutines over the harness store): every initial durable state (term, vote record, log shape, configuration) x every message sequence up to the bound x every placement of {write error, crash before, crash after} at each stable-store write, the server being rebuilt from its durable image after a crash; distinct = distinct (state, sequence) pairs",
		Assumptions: []string{"messages: RequestVote/RequestPreVote with term offset -1..+2, candidates A,B and a stranger, candidate log behind/equal/ahead, leadership-transfer flag; AppendEntries heartbeats from A,B", "sequences of length <= 2 with one fault (quick); length 3 vote sequences and two faults (thorough)", "a panic on a failed term write is a deliberate fail-stop and treated as a crash"},
		Units: func(tier string) []Unit {
			us := []Unit{{Name: "enum-votes", Enum: enumC06}}
			if tier == "thorough" {
				return append(us, scUnits(2, "elect3", "crash3", "crash3-inmem", "majority-restart", "revote3")...)
			}
			return append(us, scUnits(1, "elect3", "crash3", "crash3-inmem", "majority-restart", "revote3")...)
		}})
}

// c06consistent: a candidate's log does not change within one term, so all its RequestVote
// messages of that term carry the same last-log position.
func c06consistent(seq []c06msg) bool {
	for i, a := range seq {
		for _, b := range seq[i+1:] {
			if a.Kind == "rv" && b.Kind == "rv" && a.Cand == b.Cand && a.TermOff == b.TermOff && a.CandLog != b.CandLog {
				return false
			}
		}
	}
	return true
}
