package main

import (
	"bytes"
	"fmt"

	"github.com/hashicorp/raft"
)

// C20: user Restore.

func (w *World) restore(n *Node, index uint64, tag string) *Call {
	data := []byte("USERSNAP-" + tag)
	return w.client(n, "restore", string(data), func(c *Call, r *raft.Raft) {
		c.Extra = index
		c.Err = r.Restore(&raft.SnapshotMeta{Version: 1, Index: index, Term: 1, Size: int64(len(data))}, bytes.NewReader(data), 0)
	})
}

func init() {
	mk := func(store StoreKind, offset int) func() *Scenario {
		return func() *Scenario {
			return &Scenario{Nodes: voters(3), Store: store, Devs: DevAll, Horizon: 700, Goal: goalConverged, AutoRestart: true,
				Conf: func(i int, c *raft.Config) { c.MaxAppendEntries = 2 },
				Steps: []Step{
					stepApplyLeader("apply1"), stepApplyLeader("apply2"),
					stepDo("apply3+restore", whenSettled, func(w *World) {
						l := w.leader()
						idx := int(l.r.LastIndex()) + offset
						if idx < 1 {
							idx = 1
						}
						w.apply(l, 0)
						w.restore(l, uint64(idx), fmt.Sprint(offset))
					}),
					stepDo("apply4", whenSettled, func(w *World) { w.apply(w.leader(), 0) }),
				}}
		}
	}
	regScenario("restore3-below", mk(StorePlain, -2))
	regScenario("restore3-equal", mk(StorePlain, 0))
	regScenario("restore3-above", mk(StorePlain, 5))
	regScenario("restore3-mono-below", mk(StoreMonotonic, -2))
	regScenario("restore3-mono-above", mk(StoreMonotonic, 5))

	// a lagging follower at restore time
	regScenario("restore3-lagging", func() *Scenario {
		return &Scenario{Nodes: voters(3), Devs: DevAll, Horizon: 800, Goal: goalConverged, AutoRestart: true,
			Steps: []Step{
				stepApplyLeader("apply1"),
				stepDo("isolate-follower", whenSettled, func(w *World) { f := w.aFollower(); w.vals["iso"] = f.id; w.isolate(f.id, true) }),
				stepApplyLeader("apply2"),
				stepDo("restore", whenSettled, func(w *World) { l := w.leader(); w.restore(l, l.r.LastIndex()+3, "lag") }),
				stepDo("heal", whenSettled, func(w *World) { w.isolate(w.vals["iso"], false) }),
				stepApplyLeader("apply3"),
			}}
	})

	// Restore must be refused while a membership change is uncommitted
	regScenario("restore-refused", func() *Scenario {
		ns := append(voters(3), NodeSpec{Suffrage: raft.Voter, StartUp: true})
		return &Scenario{Nodes: ns, Devs: DevAllNet | DevStepEarly, Horizon: 600,
			Goal: func(w *World) bool { return w.scriptDone() && w.callsDone() && w.converged() },
			Steps: []Step{
				stepApplyLeader("apply1"),
				stepDo("isolate-leader+addvoter", whenSettled, func(w *World) {
					l := w.leader()
					w.vals["L"] = l.id
					w.isolate(l.id, true)
					w.addVoter(l, 3, 0)
				}),
				stepDo("restore-while-change-uncommitted", func(w *World) bool {
					l := w.nodes[w.vals["L"]]
					d := l.r.VerifDump()
					return l.r.State() == raft.Leader && d.LatestIndex != d.CommittedIndex
				}, func(w *World) {
					l := w.nodes[w.vals["L"]]
					c := w.restore(l, l.r.LastIndex()+1, "refused")
					c.Kind = "restore-must-fail"
				}),
				stepDo("heal", func(w *World) bool {
					for _, c := range w.calls {
						if c.Kind == "restore-must-fail" && !c.Done {
							return false
						}
					}
					return true
				}, func(w *World) { w.isolate(w.vals["L"], false) }),
				stepDo("apply-final", whenSettled, func(w *World) { w.apply(w.leader(), 0) }),
			}}
	})
}

type restoreRec struct {
	node, inc int
	data      string
	atEv      int
	floor     uint64 // every index known anywhere when Restore returned
	metaIndex uint64
	callID    int
}

func (m *Monitors) restoreReturned(c *Call) {
	w := m.w
	if c.Kind == "restore-must-fail" {
		if c.Err == nil {
			m.fail("C20", "restore-accepted-with-uncommitted-membership-change", "Restore on n%d returned nil although a membership change was uncommitted when it was issued", c.Node)
		}
		return
	}
	if c.Err != nil {
		return
	}
	n := w.nodes[c.Node]
	rr := &restoreRec{node: c.Node, inc: c.Inc, data: c.Payload, atEv: c.ReturnEv, callID: c.ID}
	rr.metaIndex, _ = c.Extra.(uint64)
	// the leader's FSM holds exactly the supplied snapshot (possibly followed by later entries)
	if n.fsm == nil || len(n.fsm.State) == 0 || n.fsm.State[0].Type != 255 || n.fsm.State[0].Data != c.Payload {
		var st []Applied
		if n.fsm != nil {
			st = n.fsm.State
		}
		m.fail("C20", "leader-fsm-not-restored", "Restore on n%d returned nil but its FSM holds %v, not the supplied snapshot %q", c.Node, st, c.Payload)
	}
	m.restores = append(m.restores, rr)
}

// restoreApply: entries applied after a user restore must carry indexes above the snapshot's and all earlier ones.
func (m *Monitors) restoreApply(node, inc int, a Applied) {
	f, ok := m.restoreFloor[[2]int{node, inc}]
	if ok && a.Index <= f {
		m.fail("C20", "entry-not-above-restore", "n%d.%d FSM given index %d after a user restore whose floor (snapshot index / earlier indexes) is %d", node, inc, a.Index, f)
	}
}

func (m *Monitors) userRestore(node, inc int, data string) {
	n := m.w.nodes[node]
	floor, known := m.floorByData[data]
	if !known {
		if node != m.restoringLeader(data) {
			return // a follower cannot see the restore before the leader performed it
		}
		// first time: the leader is performing the Restore. floor = the supplied snapshot index and its own last index
		floor = n.store.Hi()
		for _, c := range m.w.calls {
			if c.Kind == "restore" && c.Payload == data {
				if x, _ := c.Extra.(uint64); x > floor {
					floor = x
				}
			}
		}
		m.floorByData[data] = floor
		if sn := n.snaps.Newest(); sn != nil && sn.meta.Index <= floor {
			m.fail("C20", "restore-index-not-above", "n%d created the restore snapshot at index %d, not above the supplied index / its last index %d", node, sn.meta.Index, floor)
		}
	}
	m.restoreFloor[[2]int{node, inc}] = floor
	m.w.logf("n%d.%d USER RESTORE %q floor %d", node, inc, data, floor)
}

func (m *Monitors) restoringLeader(data string) int {
	for _, c := range m.w.calls {
		if c.Kind == "restore" && c.Payload == data {
			return c.Node
		}
	}
	return -1
}

// restoreEnd: final-state checks once the cluster converged.
func (m *Monitors) restoreEnd() {
	w := m.w
	if len(m.restores) == 0 || w.endWhy != "goal" || !w.converged() {
		return // (the goal of some scenarios is the end of their calls, not convergence)
	}
	for _, n := range w.nodes {
		if n.up && n.fsm != nil && n.fsm.Asked > n.fsm.Permits {
			return // a slow FSM has not performed everything it was handed yet
		}
	}
	last := m.restores[len(m.restores)-1]
	aborted := map[string]bool{}
	for _, c := range w.calls {
		if c.Kind == "apply" && c.Done && c.Err == raft.ErrAbortedByRestore {
			aborted[c.Payload] = true
		}
		// calls in flight at the restore either succeeded before it or were aborted
	}
	l := w.leader()
	if l == nil {
		return
	}
	for _, s := range l.r.VerifDump().Latest.Servers {
		n := w.nodes[w.nodeByAddr(s.Address)]
		if !n.up || n.fsm == nil {
			continue
		}
		st := n.fsm.State
		if len(st) == 0 || st[0].Type != 255 || st[0].Data != last.data {
			m.fail("C20", "follower-not-restored", "at convergence n%d's FSM is %v; expected the restored snapshot %q followed by the later entries", n.id, st, last.data)
			continue
		}
		for _, a := range st[1:] {
			if aborted[a.Data] {
				m.fail("C20", "aborted-call-left-a-trace", "command %s failed with ErrAbortedByRestore but is in n%d's final state %v", a.Data, n.id, st)
			}
		}
		if fmt.Sprint(st) != fmt.Sprint(l.fsm.State) {
			m.fail("C20", "final-states-differ", "n%d final FSM %v differs from the leader's %v", n.id, st, l.fsm.State)
		}
	}
}

func init() {
	// several Apply calls in flight (leader cut off, nothing commits) when the Restore is performed
	regScenario("restore3-inflight", func() *Scenario {
		return &Scenario{Nodes: voters(3), Devs: DevAll, Horizon: 800, Goal: goalConverged, AutoRestart: true, Liveness: true,
			Steps: []Step{
				stepApplyLeader("apply1"),
				stepDo("isolate-leader+3-applies", whenSettled, func(w *World) {
					l := w.leader()
					w.vals["L"] = l.id
					w.isolate(l.id, true)
					w.apply(l, 0)
					w.apply(l, 0)
					w.apply(l, 0)
				}),
				stepDo("restore-with-applies-in-flight", func(w *World) bool {
					l := w.nodes[w.vals["L"]]
					return w.netIdle() && l.r.State() == raft.Leader && len(l.r.VerifDump().Inflight) >= 3
				}, func(w *World) { l := w.nodes[w.vals["L"]]; w.restore(l, l.r.LastIndex()+2, "inflight") }),
				stepDo("heal", func(w *World) bool {
					l := w.nodes[w.vals["L"]]
					s := l.snaps.Newest()
					return s != nil && w.netIdle()
				}, func(w *World) { w.isolate(w.vals["L"], false) }),
				stepDo("apply-final", whenSettled, func(w *World) { w.apply(w.leader(), 0) }),
			}}
	})
}

// restoreInflight: calls in flight when a Restore was performed must have resolved by the end of the run.
func (m *Monitors) restoreInflight() {
	w := m.w
	for _, c := range w.calls {
		if c.Kind != "restore" || !c.Done {
			continue
		}
		for _, a := range w.calls {
			if a.Kind == "apply" && a.Node == c.Node && a.Inc == c.Inc && a.InvokeEv < c.InvokeEv && !a.Done && w.events-c.InvokeEv >= 200 {
				m.fail("C20", "inflight-call-unresolved-after-restore", "call%d (apply %s) was in flight on n%d when Restore (call%d, result %v) was performed and is still unresolved %d events later", a.ID, a.Payload, a.Node, c.ID, c.Err, w.events-c.InvokeEv)
				return
			}
		}
	}
}
