package main

import (
	"encoding/json"
	"fmt"
	"hash/fnv"
	"os"
	"runtime"
	"sort"
	"strings"
	"time"

	"github.com/hashicorp/raft/zzverif/vrand"
	"github.com/hashicorp/raft/zzverif/vsched"
	"github.com/hashicorp/raft/zzverif/vtime"
)

// ---------------------------------------------------------------------------
// Recorder: replays a prefix of choices, then takes option 0 (the default).

type Point struct {
	Labels []string
	Costs  []int
	Chosen int
}

type internalError struct{ msg string }

type Recorder struct {
	prefix       []int
	prefixLabels []string // optional: labels of the chosen options (replay files)
	points       []Point
}

func (r *Recorder) choose(labels []string, costs []int) int {
	if len(labels) == 1 {
		return 0
	}
	i := len(r.points)
	k := 0
	if i < len(r.prefix) {
		k = r.prefix[i]
		if k >= len(labels) {
			panic(internalError{fmt.Sprintf("replay divergence at point %d: choice %d out of range (%d options: %v)", i, k, len(labels), labels)})
		}
		if i < len(r.prefixLabels) && r.prefixLabels[i] != "" && r.prefixLabels[i] != labels[k] {
			panic(internalError{fmt.Sprintf("replay divergence at point %d: expected %q, got %q", i, r.prefixLabels[i], labels[k])})
		}
	}
	r.points = append(r.points, Point{Labels: labels, Costs: costs, Chosen: k})
	return k
}

func (r *Recorder) choices() []int {
	out := make([]int, len(r.points))
	for i, p := range r.points {
		out[i] = p.Chosen
	}
	return out
}

func (r *Recorder) chosenLabels() []string {
	out := make([]string, len(r.points))
	for i, p := range r.points {
		out[i] = p.Labels[p.Chosen]
	}
	return out
}

// ---------------------------------------------------------------------------
// Strategy

type strat struct {
	w        *World
	preempts int
}

func (st *strat) Coarse() bool { return !(st.w.sc.Fine && st.w.fineNow) }

func (st *strat) Choose(s *vsched.Sched, opts []vsched.Transition, nThread, cur int) int {
	w := st.w
	if w.internalErr != "" {
		return -1
	}
	if nThread > 0 {
		if !(w.sc.Fine && w.fineNow) {
			b := 0
			if cur >= 0 {
				b = cur
			}
			if s.SelectBranch && !w.noDevs && opts[b].T.Group >= 1000 {
				// Go picks at random among the ready cases of a select: every other ready case of the select the
				// scheduled thread sits in is a deviation
				idx := []int{b}
				for j := 0; j < nThread; j++ {
					if j != b && opts[j].T == opts[b].T {
						idx = append(idx, j)
					}
				}
				if len(idx) > 1 {
					labels := make([]string, len(idx))
					costs := make([]int, len(idx))
					for i, j := range idx {
						labels[i] = "select " + opts[j].String()
						if i > 0 {
							costs[i] = 1
						}
					}
					return idx[w.rec.choose(labels, costs)]
				}
			}
			return b
		}
		return st.chooseFine(s, opts, nThread, cur)
	}
	// quiescent point: every thread is parked
	w.mon.AtQuiescent()
	if w.mon.unknownViolations() > 0 && !w.mon.keepGoing {
		w.endWhy = "violation"
		return -1
	}
	if w.scriptDone() && w.sc.Goal != nil && w.sc.Goal(w) {
		w.endWhy = "goal"
		return -1
	}
	if w.events >= w.sc.Horizon {
		w.endWhy = "horizon"
		return -1
	}
	if len(opts) == 0 {
		return -1
	}
	labels := make([]string, len(opts))
	costs := make([]int, len(opts))
	for i, o := range opts {
		labels[i] = o.Env.Key
		costs[i] = o.Env.Cost
	}
	k := w.rec.choose(labels, costs)
	w.events++
	w.transitions++
	w.logf("%s", labels[k])
	if w.keepTr && os.Getenv("VERIF_TRACE_LIVE") != "" {
		w.trace = append(w.trace, "     live: "+s.LiveString())
	}
	return k
}

// chooseFine: every thread step is a branching point; default = continue the
// running thread, else the lowest thread id; environment transitions are offered
// only when no thread is enabled (quiescent) -- handled above.
func (st *strat) chooseFine(s *vsched.Sched, opts []vsched.Transition, nThread, cur int) int {
	w := st.w
	// canonical order: current thread's options first (already), then others by id.
	labels := make([]string, len(opts))
	costs := make([]int, len(opts))
	def := 0
	// (FineEnv) network events offered while threads are still runnable: each is a deviation
	for i := nThread; i < len(opts); i++ {
		labels[i] = "env " + opts[i].Env.Key
		costs[i] = 1
	}
	for i := 0; i < nThread; i++ {
		labels[i] = opts[i].String()
		c := 0
		if cur >= 0 {
			// switching away from a runnable thread is a preemption; a different
			// ready case of the same thread is a select-choice deviation
			if opts[i].T != opts[cur].T {
				c = 1
			} else if i != cur {
				c = 1
			}
		} else if i != def {
			// the running thread blocked: picking a thread other than the first is
			// a free scheduling choice (cost 1 to bound the search)
			c = 1
		}
		costs[i] = c
	}
	// reorder so that the default is index 0
	if cur > 0 {
		labels[0], labels[cur] = labels[cur], labels[0]
		costs[0], costs[cur] = costs[cur], costs[0]
	}
	k := w.rec.choose(labels, costs)
	w.transitions++
	if cur > 0 {
		if k == 0 {
			k = cur
		} else if k == cur {
			k = 0
		}
	}
	if k >= nThread {
		w.events++
		w.logf("%s (threads still runnable)", opts[k].Env.Key)
		return k
	}
	if w.keepTr {
		w.trace = append(w.trace, "  thr "+opts[k].String())
	}
	return k
}

// netOptionsFine: the network transitions that are possible right now, computed without side effects (used in
// FineEnv mode while threads of the servers are still runnable, so that two environment events can be in flight
// inside one server at once: e.g. the acknowledgement that completes a quorum and the RPC that deposes the leader).
func (w *World) netOptionsFine() []vsched.EnvT {
	var out []vsched.EnvT
	for _, m := range w.live {
		m := m
		switch {
		case m.St == mDelivered && len(m.respCh) > 0 && !m.held:
			if !(w.nodes[m.From].up && w.nodes[m.From].inc == m.FromInc) || (!w.linkOK(m.To, m.From) && !m.bypass) {
				continue
			}
			out = append(out, vsched.EnvT{Key: "reply " + m.String(), Cost: 1, Do: func() {
				if m.HandledAt == 0 {
					m.HandledAt = w.events
					w.mon.OnHandled(m)
				}
				w.reply(m)
			}})
		case m.St == mPending && !m.inFlight && m.To >= 0 && w.canReach(m):
			out = append(out, vsched.EnvT{Key: "deliver " + m.String(), Cost: 1, Do: func() { w.deliver(m, false) }})
		}
	}
	return out
}

// ---------------------------------------------------------------------------
// One execution

type ExecResult struct {
	Points      []Point
	Violations  []Violation
	EndWhy      string
	Events      int
	Transitions int
	Keys        []uint64 // hashes of abstract states at quiescent points
	Outcome     string
	Trace       []string
	Internal    string
	Steps       int
}

func hash64(s string) uint64 {
	h := fnv.New64a()
	h.Write([]byte(s))
	return h.Sum64()
}

func runOnce(sc *Scenario, prefix []int, prefixLabels []string, trace bool) (res *ExecResult) {
	if debugPrefix {
		fmt.Fprintln(os.Stderr, "RUN", prefix)
	}
	w := &World{sc: sc, blocked: map[[2]int]bool{}, keepTr: trace, vals: map[string]int{}, tvals: map[string]time.Duration{}, randExtra: map[int]int64{}, inj: injState{iso: -1}, stallNode: -1}
	vrand.Int63Fn = func() int64 {
		if n := w.nodeOfCur(); n != nil {
			if w.sc.Devs&DevRand != 0 && !w.noDevs && n.booted {
				// the jitter of this timeout is an environment answer: the node's configured extra, or close to the maximum
				if w.rec.choose([]string{fmt.Sprintf("n%d jitter default", n.id), fmt.Sprintf("n%d jitter max", n.id)}, []int{0, 1}) == 1 {
					return int64(99 * time.Millisecond)
				}
			}
			return w.randExtra[n.id]
		}
		return 0
	}
	w.rec = &Recorder{prefix: prefix, prefixLabels: prefixLabels}
	w.mon = newMonitors(w)
	st := &strat{w: w}
	s := vsched.New(st)
	w.sched = s
	s.SelectBranch = sc.Devs&DevSelect != 0
	vtime.Reset()
	s.EnvFn = func(nThread int) []vsched.EnvT {
		if w.internalErr != "" {
			return nil
		}
		if nThread > 0 {
			if w.sc.Fine && w.sc.FineEnv && w.fineNow {
				return w.netOptionsFine()
			}
			return nil
		}
		eo := w.envOptions()
		out := make([]vsched.EnvT, len(eo))
		for i, o := range eo {
			out[i] = vsched.EnvT{Key: o.label, Cost: o.cost, Do: o.do}
		}
		return out
	}
	s.OnPanic = func(t *vsched.Thread, v any, stack string) {
		if ie, ok := v.(internalError); ok {
			w.internalErr = ie.msg
			return
		}
		n := w.nodeOfThread(t)
		if n == nil {
			// a harness or client thread panicked: that is a bug in the machinery (or a panic surfacing through the public API)
			w.mon.OnClientPanic(t, v, stack)
			return
		}
		w.logf("PANIC in n%d: %v", n.id, v)
		w.mon.OnServerPanic(n.id, n.inc, v, stack)
		w.crashFromPanic(n)
	}
	reason := s.Run(func() {
		w.storeFaultsOn = true
		w.setup()
	})
	if w.endWhy == "" {
		w.endWhy = reason
	}
	w.mon.AtEnd()
	res = &ExecResult{Points: w.rec.points, Violations: w.mon.viol, EndWhy: w.endWhy, Events: w.events, Transitions: w.transitions,
		Keys: w.mon.keys, Outcome: w.mon.outcome(), Trace: w.trace, Internal: w.internalErr, Steps: s.Steps}
	if trace {
		res.Trace = append(res.Trace, "END "+w.endWhy+" "+w.stateString())
		if len(s.Panics) > 0 {
			res.Trace = append(res.Trace, "PANICS: "+strings.Join(s.Panics, "\n"))
		}
		res.Trace = append(res.Trace, "LIVE: "+s.LiveString())
	}
	if os.Getenv("VERIF_DUMP_STACKS") != "" {
		buf := make([]byte, 1<<20)
		n := runtime.Stack(buf, true)
		os.Stderr.Write(buf[:n])
	}
	s.Kill()
	return res
}

func (w *World) nodeOfThread(t *vsched.Thread) *Node {
	g := t.Group
	if g < 1000 {
		return nil
	}
	id := g/1000 - 1
	if id < 0 || id >= len(w.nodes) {
		return nil
	}
	return w.nodes[id]
}

func (w *World) crashFromPanic(n *Node) {
	n.crashedByDev = true
	w.crashMid = true
	w.crash(n)
}

// ---------------------------------------------------------------------------
// Deviation-bounded DFS

type Stats struct {
	Execs       int               `json:"execs"`
	Transitions int               `json:"transitions"`
	Keys        map[uint64]bool   `json:"-"`
	KeyList     []uint64          `json:"keys,omitempty"`
	Outcomes    map[string]int    `json:"outcomes"`
	EndWhy      map[string]int    `json:"end_why"`
	Violations  []FoundViolation  `json:"violations"`
	Known       map[string]int    `json:"known"`
	Replays     int               `json:"replays_compared"`
	MaxPoints   int               `json:"max_points"`
	Capped      bool              `json:"capped"`
	Internal    string            `json:"internal,omitempty"`
	Samples     []json.RawMessage `json:"samples,omitempty"`
	PerLevel    map[int]int       `json:"per_level"`
}

type FoundViolation struct {
	Violation
	Scenario string   `json:"scenario"`
	Choices  []int    `json:"choices"`
	Labels   []string `json:"labels"`
	Case     any      `json:"case,omitempty"`
}

func newStats() *Stats {
	return &Stats{Keys: map[uint64]bool{}, Outcomes: map[string]int{}, EndWhy: map[string]int{}, Known: map[string]int{}, PerLevel: map[int]int{}}
}

func (s *Stats) merge(o *Stats) {
	s.Execs += o.Execs
	s.Transitions += o.Transitions
	for _, k := range o.KeyList {
		s.Keys[k] = true
	}
	for k := range o.Keys {
		s.Keys[k] = true
	}
	for k, v := range o.Outcomes {
		s.Outcomes[k] += v
	}
	for k, v := range o.EndWhy {
		s.EndWhy[k] += v
	}
	for k, v := range o.Known {
		s.Known[k] += v
	}
	for k, v := range o.PerLevel {
		s.PerLevel[k] += v
	}
	s.Violations = append(s.Violations, o.Violations...)
	s.Replays += o.Replays
	if o.MaxPoints > s.MaxPoints {
		s.MaxPoints = o.MaxPoints
	}
	s.Capped = s.Capped || o.Capped
	if s.Internal == "" {
		s.Internal = o.Internal
	}
	if len(s.Samples) < 3 {
		s.Samples = append(s.Samples, o.Samples...)
		if len(s.Samples) > 3 {
			s.Samples = s.Samples[:3]
		}
	}
}

type Explorer struct {
	sc          *Scenario
	prop        string // property this check decides ("" = all)
	bound       int
	deadline    time.Time
	stats       *Stats
	shard, of   int
	replayEvery int
	maxViol     int
	known       *KnownFindings
}

func (e *Explorer) record(res *ExecResult, level int) {
	st := e.stats
	st.Execs++
	st.Transitions += res.Transitions
	st.PerLevel[level]++
	for _, k := range res.Keys {
		st.Keys[k] = true
	}
	st.Outcomes[res.Outcome]++
	st.EndWhy[res.EndWhy]++
	if len(res.Points) > st.MaxPoints {
		st.MaxPoints = len(res.Points)
	}
	if len(st.Samples) < 2 && (level == 0 || len(st.Samples) == 0 || level >= 1) {
		c, l := choicesOf(res.Points)
		c, _ = trimDefaults(c, l)
		var ev []string
		for i, x := range l {
			if i < 60 {
				ev = append(ev, x)
			}
		}
		b, _ := json.Marshal(map[string]any{"scenario": e.sc.Name, "deviations": c, "end": res.EndWhy, "outcome": res.Outcome, "decisions_at_branch_points": ev})
		st.Samples = append(st.Samples, b)
	}
	if res.Internal != "" && st.Internal == "" {
		st.Internal = res.Internal
	}
}

func choicesOf(pts []Point) ([]int, []string) {
	c := make([]int, len(pts))
	l := make([]string, len(pts))
	for i, p := range pts {
		c[i] = p.Chosen
		l[i] = p.Labels[p.Chosen]
	}
	return c, l
}

// trimDefaults drops the trailing default choices of a schedule.
func trimDefaults(c []int, l []string) ([]int, []string) {
	n := len(c)
	for n > 0 && c[n-1] == 0 {
		n--
	}
	return c[:n], l[:n]
}

func (e *Explorer) handle(res *ExecResult, level int) {
	e.record(res, level)
	for _, v := range res.Violations {
		if e.prop != "" && v.Prop != e.prop {
			continue
		}
		if e.known != nil && e.known.Matches(v) {
			e.stats.Known[v.Prop+" "+v.Sig]++
			continue
		}
		if len(e.stats.Violations) < e.maxViol {
			c, l := choicesOf(res.Points)
			c, l = trimDefaults(c, l)
			e.stats.Violations = append(e.stats.Violations, FoundViolation{Violation: v, Scenario: e.sc.Name, Choices: c, Labels: l})
		}
	}
	// determinism spot check
	if e.replayEvery > 0 && e.stats.Execs%e.replayEvery == 1 && res.Internal == "" {
		c, l := choicesOf(res.Points)
		r2 := runOnce(e.sc, c, l, false)
		e.stats.Replays++
		if r2.Internal != "" {
			e.stats.Internal = "replay: " + r2.Internal
		} else if r2.Outcome != res.Outcome || len(r2.Points) != len(res.Points) || r2.Events != res.Events {
			e.stats.Internal = fmt.Sprintf("nondeterminism: replay of %v gave outcome %q/%d points, first run %q/%d points", c, r2.Outcome, len(r2.Points), res.Outcome, len(res.Points))
		}
	}
}

func (e *Explorer) stop() bool {
	if e.stats.Internal != "" || len(e.stats.Violations) >= e.maxViol {
		return true
	}
	if !e.deadline.IsZero() && time.Now().After(e.deadline) {
		e.stats.Capped = true
		return true
	}
	return false
}

// explore runs prefix and recurses over the alternatives that fit the budget.
func (e *Explorer) explore(prefix []int, budget int, level int) {
	if e.stop() {
		return
	}
	res := runOnce(e.sc, prefix, nil, false)
	e.handle(res, level)
	if budget <= 0 {
		return
	}
	idx := 0
	for i := len(prefix); i < len(res.Points); i++ {
		p := res.Points[i]
		for alt := 1; alt < len(p.Labels); alt++ {
			c := p.Costs[alt]
			if c <= 0 {
				c = 1
			}
			if c > budget {
				continue
			}
			idx++
			if level == 0 && e.of > 1 && idx%e.of != e.shard {
				continue
			}
			np := make([]int, i+1)
			for j := 0; j < i; j++ {
				np[j] = res.Points[j].Chosen
			}
			np[i] = alt
			e.explore(np, budget-c, level+1)
			if e.stop() {
				return
			}
		}
	}
}

// ---------------------------------------------------------------------------
// Replay files

type ReplayFile struct {
	Property string   `json:"property"`
	Scenario string   `json:"scenario"`
	Sig      string   `json:"signature"`
	Message  string   `json:"message"`
	Choices  []int    `json:"choices"`
	Labels   []string `json:"labels"`
	Trace    []string `json:"trace,omitempty"`
	Kind     string   `json:"kind"` // "schedule" or an enumerator name
	Case     any      `json:"case,omitempty"`
}

func writeReplay(dir string, rf *ReplayFile) string {
	os.MkdirAll(dir, 0o755)
	b, _ := json.MarshalIndent(rf, "", " ")
	name := fmt.Sprintf("%s/%s-%016x.json", dir, rf.Property, hash64(rf.Scenario+rf.Sig+fmt.Sprint(rf.Choices)+fmt.Sprint(rf.Case)))
	os.WriteFile(name, b, 0o644)
	return name
}

func sortedKeys(m map[string]int) []string {
	var out []string
	for k := range m {
		out = append(out, k)
	}
	sort.Strings(out)
	return out
}

func init() {
	if os.Getenv("VERIF_DEBUG_PREFIX") != "" {
		debugPrefix = true
	}
}

var debugPrefix bool
