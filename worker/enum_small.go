package main

import (
	"encoding/json"
	"fmt"
	"sort"
	"strings"

	"github.com/hashicorp/raft"
)

// ---------------------------------------------------------------------------
// C05 (1): the real commitment type against a reference, explicit-state BFS to the fixpoint.

var c05ids = []raft.ServerID{"a", "b", "c", "d"}

type c05op struct {
	Kind string `json:"op"` // match | setcfg
	ID   int    `json:"id,omitempty"`
	Idx  uint64 `json:"idx,omitempty"`
	Cfg  []int  `json:"cfg,omitempty"` // per id: 0 absent, 1 voter, 2 nonvoter, 3 staging
}

func (o c05op) String() string {
	if o.Kind == "match" {
		return fmt.Sprintf("match(%s,%d)", c05ids[o.ID], o.Idx)
	}
	return fmt.Sprintf("setConfiguration(%v)", o.Cfg)
}

func c05cfg(code []int) raft.Configuration {
	var c raft.Configuration
	for i, s := range code {
		switch s {
		case 1:
			c.Servers = append(c.Servers, raft.Server{Suffrage: raft.Voter, ID: c05ids[i], Address: raft.ServerAddress(c05ids[i])})
		case 2:
			c.Servers = append(c.Servers, raft.Server{Suffrage: raft.Nonvoter, ID: c05ids[i], Address: raft.ServerAddress(c05ids[i])})
		case 3:
			c.Servers = append(c.Servers, raft.Server{Suffrage: raft.Staging, ID: c05ids[i], Address: raft.ServerAddress(c05ids[i])})
		}
	}
	return c
}

// reference model
type c05ref struct {
	match  map[int]uint64 // voters only
	commit uint64
	start  uint64
}

func newC05ref(code []int, start uint64) *c05ref {
	r := &c05ref{match: map[int]uint64{}, start: start}
	for i, s := range code {
		if s == 1 {
			r.match[i] = 0
		}
	}
	return r
}

// recompute returns whether commit rose.
func (r *c05ref) recompute() bool {
	n := len(r.match)
	if n == 0 {
		return false
	}
	best := uint64(0)
	for cand := uint64(1); cand <= 8; cand++ {
		have := 0
		for _, m := range r.match {
			if m >= cand {
				have++
			}
		}
		if have*2 > n {
			best = cand
		}
	}
	if best > r.commit && best >= r.start {
		r.commit = best
		return true
	}
	return false
}

func (r *c05ref) apply(o c05op) bool {
	switch o.Kind {
	case "match":
		if prev, ok := r.match[o.ID]; ok && o.Idx > prev {
			r.match[o.ID] = o.Idx
			return r.recompute()
		}
		return false
	case "setcfg":
		old := r.match
		r.match = map[int]uint64{}
		for i, s := range o.Cfg {
			if s == 1 {
				r.match[i] = old[i]
			}
		}
		return r.recompute()
	}
	return false
}

func (r *c05ref) key() string {
	var ks []string
	for i, m := range r.match {
		ks = append(ks, fmt.Sprintf("%d=%d", i, m))
	}
	sort.Strings(ks)
	return fmt.Sprintf("%s|c%d|s%d", strings.Join(ks, ","), r.commit, r.start)
}

func allCodes(n int) [][]int {
	var out [][]int
	var rec func(cur []int)
	rec = func(cur []int) {
		if len(cur) == n {
			out = append(out, append([]int{}, cur...))
			return
		}
		for s := 0; s < 4; s++ {
			rec(append(cur, s))
		}
	}
	rec(nil)
	return out
}

type c05case struct {
	Init  []int   `json:"init"`
	Start uint64  `json:"start"`
	Ops   []c05op `json:"ops"`
}

// runC05 replays a case on the real type and the reference; returns a disagreement.
func runC05(c c05case) (string, *c05ref) {
	real := raft.VerifNewCommitment(c05cfg(c.Init), c.Start)
	ref := newC05ref(c.Init, c.Start)
	if real.CommitIndex() != 0 {
		return "fresh commitment reports a commit index", ref
	}
	// the constructor is a second way into every configuration: the fresh object must be in the state the
	// reference is in (exactly the voters tracked, all at 0), which is what justifies sharing visited states
	// between roots
	if m0, _, _ := real.Dump(); len(m0) != len(ref.match) {
		return fmt.Sprintf("fresh commitment tracks %v, voters are %v", m0, ref.match), ref
	} else {
		for id, v := range m0 {
			k := -1
			for i := range c05ids {
				if c05ids[i] == id {
					k = i
				}
			}
			if _, ok := ref.match[k]; !ok || v != 0 {
				return fmt.Sprintf("fresh commitment tracks %v, voters are %v", m0, ref.match), ref
			}
		}
	}
	for i, o := range c.Ops {
		before := real.CommitIndex()
		rose := ref.apply(o)
		switch o.Kind {
		case "match":
			real.Match(c05ids[o.ID], o.Idx)
		case "setcfg":
			real.SetConfiguration(c05cfg(o.Cfg))
		}
		got := real.CommitIndex()
		note := real.Notified()
		if got < before {
			return fmt.Sprintf("after op %d %v the commit index decreased from %d to %d", i, o, before, got), ref
		}
		if got != ref.commit {
			m, _, _ := real.Dump()
			return fmt.Sprintf("after op %d %v: commit index %d, a strict majority of the %d voters (match %v) stores up to %d (startIndex %d)", i, o, got, len(ref.match), m, ref.commit, c.Start), ref
		}
		if note != rose {
			return fmt.Sprintf("after op %d %v: commit notification sent=%v but commit index rose=%v", i, o, note, rose), ref
		}
		// non-voters never hold a slot
		m, _, _ := real.Dump()
		if len(m) != len(ref.match) {
			return fmt.Sprintf("after op %d %v: commitment tracks %v, voters are %v", i, o, m, ref.match), ref
		}
	}
	return "", ref
}

func enumC05(ctx *CheckCtx, shard, of int) *Stats {
	st := newStats()
	nids := 3
	maxIdx := uint64(3)
	if ctx.Tier == "thorough" {
		nids = 4
	}
	codes := allCodes(nids)
	var ops []c05op
	for id := 0; id < nids; id++ {
		for x := uint64(0); x <= maxIdx; x++ {
			ops = append(ops, c05op{Kind: "match", ID: id, Idx: x})
		}
	}
	for _, c := range codes {
		ops = append(ops, c05op{Kind: "setcfg", Cfg: c})
	}
	roots := 0
	if shard != 0 {
		return st
	}
	seen := map[string]bool{} // shared by all roots: setConfiguration reaches every configuration from every root
	for _, init := range codes {
		for start := uint64(1); start <= 3; start++ {
			roots++
			// BFS over reference states; every transition is executed on the real type by replaying the path
			type nd struct{ ops []c05op }
			root := c05case{Init: init, Start: start}
			d0, r0 := runC05(root)
			st.Execs++
			if d0 != "" {
				st.Violations = append(st.Violations, FoundViolation{Violation: Violation{Prop: "C05", Sig: "commitment-differs-from-majority-rule", Msg: fmt.Sprintf("configuration %v startIndex %d: %s", init, start, d0)},
					Scenario: "enum-commitment", Case: root})
				return st
			}
			if seen[r0.key()] {
				continue
			}
			seen[r0.key()] = true
			frontier := []nd{{nil}}
			for len(frontier) > 0 {
				var next []nd
				for _, n := range frontier {
					for _, o := range ops {
						c := c05case{Init: init, Start: start, Ops: append(append([]c05op{}, n.ops...), o)}
						st.Execs++
						st.Transitions++
						d, ref := runC05(c)
						if d != "" {
							st.Violations = append(st.Violations, FoundViolation{Violation: Violation{Prop: "C05", Sig: "commitment-differs-from-majority-rule", Msg: fmt.Sprintf("configuration %v startIndex %d, ops %v: %s", init, start, c.Ops, d)},
								Scenario: "enum-commitment", Case: c})
							return st
						}
						k := ref.key()
						if !seen[k] {
							seen[k] = true
							next = append(next, nd{c.Ops})
							if len(st.Samples) < 2 && len(c.Ops) >= 3 {
								b, _ := json.Marshal(map[string]any{"case": c, "state": k})
								st.Samples = append(st.Samples, b)
							}
						}
					}
				}
				frontier = next
			}
		}
	}
	for k := range seen {
		st.Keys[hash64(k)] = true
	}
	st.Outcomes[fmt.Sprintf("roots=%d states=%d", roots, len(seen))]++
	return st
}

func replayC05(m map[string]any) (string, bool) {
	b, _ := json.Marshal(m)
	var c c05case
	if err := json.Unmarshal(b, &c); err != nil {
		return err.Error(), false
	}
	d, _ := runC05(c)
	return d, d != ""
}

// ---------------------------------------------------------------------------
// C07 (1): nextConfiguration, exhaustive over a small universe.

var c07ids = []raft.ServerID{"a", "b", "c", "d"}
var c07addrs = []raft.ServerAddress{"A", "B", "C", "D"}

type c07case struct {
	Cur   []raft.Server `json:"current"`
	Index uint64        `json:"index"`
	Cmd   uint8         `json:"command"`
	ID    string        `json:"id"`
	Addr  string        `json:"addr"`
	Prev  uint64        `json:"prev"`
}

func c07ref(cur []raft.Server, cmd raft.ConfigurationChangeCommand, id raft.ServerID, addr raft.ServerAddress) []raft.Server {
	out := append([]raft.Server{}, cur...)
	find := func() int {
		for i, s := range out {
			if s.ID == id {
				return i
			}
		}
		return -1
	}
	i := find()
	switch cmd {
	case raft.AddVoter:
		if i < 0 {
			out = append(out, raft.Server{Suffrage: raft.Voter, ID: id, Address: addr})
		} else if out[i].Suffrage == raft.Voter {
			out[i].Address = addr
		} else {
			out[i] = raft.Server{Suffrage: raft.Voter, ID: id, Address: addr}
		}
	case raft.AddNonvoter:
		if i < 0 {
			out = append(out, raft.Server{Suffrage: raft.Nonvoter, ID: id, Address: addr})
		} else if out[i].Suffrage != raft.Nonvoter {
			out[i].Address = addr
		} else {
			out[i] = raft.Server{Suffrage: raft.Nonvoter, ID: id, Address: addr}
		}
	case raft.DemoteVoter:
		if i >= 0 {
			out[i].Suffrage = raft.Nonvoter
		}
	case raft.RemoveServer:
		if i >= 0 {
			out = append(out[:i], out[i+1:]...)
		}
	case raft.Promote:
		if i >= 0 && out[i].Suffrage == raft.Staging {
			out[i].Suffrage = raft.Voter
		}
	}
	return out
}

func validCfg(ss []raft.Server) bool {
	ids, addrs := map[raft.ServerID]bool{}, map[raft.ServerAddress]bool{}
	v := 0
	for _, s := range ss {
		if s.ID == "" || s.Address == "" || ids[s.ID] || addrs[s.Address] {
			return false
		}
		ids[s.ID], addrs[s.Address] = true, true
		if s.Suffrage == raft.Voter {
			v++
		}
	}
	return v > 0
}

func voterSet(ss []raft.Server) map[raft.ServerID]bool {
	m := map[raft.ServerID]bool{}
	for _, s := range ss {
		if s.Suffrage == raft.Voter {
			m[s.ID] = true
		}
	}
	return m
}

func runC07(c c07case) string {
	cur := raft.Configuration{Servers: append([]raft.Server{}, c.Cur...)}
	// give the input spare capacity so that an append/in-place edit that aliases it is visible
	backing := make([]raft.Server, len(c.Cur), len(c.Cur)+4)
	copy(backing, c.Cur)
	cur.Servers = backing
	saved := append([]raft.Server{}, c.Cur...)
	res, err := raft.VerifNextConfiguration(cur, c.Index, raft.ConfigurationChangeCommand(c.Cmd), raft.ServerID(c.ID), raft.ServerAddress(c.Addr), c.Prev)
	// the input is never modified
	for i := range saved {
		if backing[i] != saved[i] {
			return fmt.Sprintf("the current configuration was modified in place: %v -> %v", saved, backing[:len(saved)])
		}
	}
	if c.Prev > 0 && c.Prev != c.Index {
		if err == nil {
			return fmt.Sprintf("stale prevIndex %d (current %d) was accepted: %v", c.Prev, c.Index, res.Servers)
		}
		return ""
	}
	want := c07ref(c.Cur, raft.ConfigurationChangeCommand(c.Cmd), raft.ServerID(c.ID), raft.ServerAddress(c.Addr))
	wantOK := validCfg(want)
	if (err == nil) != wantOK {
		return fmt.Sprintf("error=%v but the resulting configuration %v valid=%v", err, want, wantOK)
	}
	if err != nil {
		return ""
	}
	if fmt.Sprint(res.Servers) != fmt.Sprint(want) {
		return fmt.Sprintf("result %v, expected %v", res.Servers, want)
	}
	if !validCfg(res.Servers) {
		return fmt.Sprintf("result %v is not a valid configuration", res.Servers)
	}
	// at most one voter of difference
	a, b := voterSet(c.Cur), voterSet(res.Servers)
	diff := 0
	for k := range a {
		if !b[k] {
			diff++
		}
	}
	for k := range b {
		if !a[k] {
			diff++
		}
	}
	if diff > 1 {
		return fmt.Sprintf("voter sets of %v and %v differ by %d servers", c.Cur, res.Servers, diff)
	}
	// no aliasing: mutating the result must not change the input
	for i := range res.Servers {
		res.Servers[i].Address = "mutated"
	}
	if len(res.Servers) > 0 {
		_ = append(res.Servers[:0], raft.Server{ID: "zz"})
	}
	for i := range saved {
		if backing[i] != saved[i] {
			return fmt.Sprintf("result shares memory with the input: mutating it changed the input to %v", backing[:len(saved)])
		}
	}
	return ""
}

func c07configs() [][]raft.Server {
	var out [][]raft.Server
	sufs := []raft.ServerSuffrage{raft.Voter, raft.Nonvoter, raft.Staging}
	var rec func(start int, cur []raft.Server, usedAddr map[int]bool)
	rec = func(start int, cur []raft.Server, usedAddr map[int]bool) {
		if len(cur) > 0 && validCfg(cur) {
			out = append(out, append([]raft.Server{}, cur...))
		}
		if len(cur) == 3 {
			return
		}
		for i := start; i < len(c07ids); i++ {
			for a := range c07addrs {
				if usedAddr[a] {
					continue
				}
				for _, s := range sufs {
					usedAddr[a] = true
					rec(i+1, append(cur, raft.Server{Suffrage: s, ID: c07ids[i], Address: c07addrs[a]}), usedAddr)
					delete(usedAddr, a)
				}
			}
		}
	}
	rec(0, nil, map[int]bool{})
	return out
}

func enumC07(ctx *CheckCtx, shard, of int) *Stats {
	st := newStats()
	cfgs := c07configs()
	cmds := []raft.ConfigurationChangeCommand{raft.AddVoter, raft.AddNonvoter, raft.DemoteVoter, raft.RemoveServer, raft.Promote}
	addrs := []string{"A", "B", "C", "D", ""}
	for ci, cur := range cfgs {
		if of > 1 && ci%of != shard {
			continue
		}
		// also a permuted order of the same configuration
		variants := [][]raft.Server{cur}
		if len(cur) > 1 {
			rev := append([]raft.Server{}, cur...)
			for i, j := 0, len(rev)-1; i < j; i, j = i+1, j-1 {
				rev[i], rev[j] = rev[j], rev[i]
			}
			variants = append(variants, rev)
		}
		for _, v := range variants {
			for _, index := range []uint64{1, 5} {
				for _, cmd := range cmds {
					for _, id := range c07ids {
						for _, addr := range addrs {
							for _, prev := range []uint64{0, index, index + 1, 3} {
								c := c07case{Cur: v, Index: index, Cmd: uint8(cmd), ID: string(id), Addr: addr, Prev: prev}
								st.Execs++
								st.Transitions++
								if d := runC07(c); d != "" {
									st.Violations = append(st.Violations, FoundViolation{Violation: Violation{Prop: "C07", Sig: "nextConfiguration:" + cmd.String(), Msg: fmt.Sprintf("%v(%s,%s,prev=%d) on %v@%d: %s", cmd, id, addr, prev, v, index, d)},
										Scenario: "enum-nextconfiguration", Case: c})
									return st
								}
							}
						}
					}
				}
			}
			st.Keys[hash64(fmt.Sprint(v))] = true
		}
		if len(st.Samples) < 2 {
			b, _ := json.Marshal(c07case{Cur: cur, Index: 5, Cmd: uint8(raft.AddVoter), ID: "d", Addr: "D", Prev: 5})
			st.Samples = append(st.Samples, b)
		}
	}
	st.Outcomes[fmt.Sprintf("configurations=%d", len(cfgs))]++
	return st
}

func replayC07(m map[string]any) (string, bool) {
	b, _ := json.Marshal(m)
	var c c07case
	if err := json.Unmarshal(b, &c); err != nil {
		return err.Error(), false
	}
	d := runC07(c)
	return d, d != ""
}

func init() {
	enumReplays["enum-commitment"] = replayC05
	enumReplays["enum-nextconfiguration"] = replayC07
}
