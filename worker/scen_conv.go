package main

import (
	"fmt"
	"time"

	"github.com/hashicorp/raft"
)

// C12: every end state of a k-bounded fault scenario is continued with the faults switched off, in the
// timed regime, with pairwise distinct timeout jitter: the cluster must elect, accept a write and bring
// every running member to the leader's committed state within 10 election timeouts of virtual time.

const convBound = 10 * tElection

func withQuiet(base string, perm []int) func() *Scenario {
	return withQuietOpt(base, perm, true)
}

// restart=false leaves servers crashed by the script down (the scenario keeps a majority of voters running);
// servers crashed by a deviation are restarted in any case.
func withQuietOpt(base string, perm []int, restart bool) func() *Scenario {
	return func() *Scenario {
		sc := scenarioByName(base)
		sc.Goal = func(w *World) bool {
			return w.vals["quiet"] == 1 && w.vals["probed"] == 1 && w.converged()
		}
		sc.GiveUpAt, sc.GiveUpTo = sc.Horizon, "faults-stop" // a stalled fault phase is still followed by the quiet phase
		sc.Horizon += 6000
		sc.Steps = append(sc.Steps,
			stepDo("faults-stop", nil, func(w *World) {
				for k := range w.blocked {
					delete(w.blocked, k)
				}
				for _, n := range w.nodes {
					if (restart || n.crashedByDev) && !n.up && n.everUp {
						w.start(n)
					}
				}
				w.holdResp = nil
				w.releaseHeld()
				w.noDevs = true
				w.timedNow = true
				setExtras(w, perm)
				w.vals["quiet"] = 1
				w.tvals["quiet"] = w.now()
				w.logf("QUIET from %v", w.now())
			}),
			stepDo("probe-apply", func(w *World) bool { return w.stableLeader() != nil }, func(w *World) {
				w.vals["probed"] = 1
				c := w.apply(w.leader(), 0)
				c.Kind = "apply"
				w.vals["probeCall"] = c.ID
			}),
		)
		return sc
	}
}

func init() {
	for _, b := range []string{"crash3", "snap3", "snap3-mono", "stale-suffix", "member", "majority-restart", "fig8", "restore3-lagging", "transfer"} {
		regScenario("conv-"+b, withQuiet(b, []int{0, 2, 1, 3}))
		regScenario("conv2-"+b, withQuiet(b, []int{2, 0, 1, 3}))
	}
	// A non-voter is promoted while cut off from the leader, so it never learns of its own vote; the leader then
	// crashes for good. The remaining three of four voters can communicate and must elect (the promoted server's
	// vote is needed although its own configuration says it has none).
	regScenario("promote-cut", func() *Scenario {
		ns := append(voters(3), NodeSpec{Suffrage: raft.Nonvoter, InBootstrap: true, StartUp: true})
		return &Scenario{Nodes: ns, Devs: DevAll, Horizon: 400, Goal: func(w *World) bool { return w.vals["crashed"] == 1 && w.converged() },
			Steps: []Step{
				stepApplyLeader("apply1"),
				stepDo("cut+promote", whenSettled, func(w *World) {
					l := w.leader()
					w.vals["old"] = l.id
					w.cut(l.id, 3, true)
					w.vals["promo"] = w.addVoter(l, 3, 0).ID
				}),
				stepDo("crash-leader", func(w *World) bool {
					c := w.calls[w.vals["promo"]]
					return c.Done && c.Err == nil && w.nodes[w.vals["old"]].up
				}, func(w *World) {
					w.crash(w.nodes[w.vals["old"]])
					w.vals["crashed"] = 1
				}),
			}}
	})
	// Term gap: when the faults stop, the only majority that can talk is {L, A}: L (pre-vote on) has the longer log
	// but sits two or more terms behind A (pre-vote on, shorter log), whose term was pumped by B - a server without
	// pre-vote that campaigned alone for a while and is down for good now. A can never win (log behind); L must
	// learn the newer term from A's pre-vote rejections and then win.
	regScenario("term-gap", func() *Scenario {
		ns := voters(3)
		ns[1].PreVoteDisabled = true
		term := func(w *World, id int) uint64 {
			if n := w.nodes[id]; n.up && n.r != nil {
				return n.r.CurrentTerm()
			}
			return 0
		}
		return &Scenario{Nodes: ns, Devs: DevAll, Horizon: 900, Goal: func(w *World) bool { return w.vals["bdown"] == 1 && w.converged() },
			Steps: []Step{
				stepApplyLeader("apply1"),
				stepDo("isolate-B", func(w *World) bool { return whenSettled(w) && w.leader().id != 1 }, func(w *World) {
					l := w.leader()
					w.vals["L"] = l.id
					w.vals["A"] = 3 - l.id - 1
					w.vals["T"] = int(l.r.CurrentTerm())
					w.isolate(1, true)
				}),
				stepDo("apply2-L+A", func(w *World) bool {
					l := w.leader()
					return l != nil && l.id == w.vals["L"] && w.callsDone() && w.netIdle()
				}, func(w *World) { w.vals["c2"] = w.apply(w.leader(), 0).ID }),
				stepDo("isolate-everyone+apply3-on-L", func(w *World) bool {
					a := w.nodes[w.vals["A"]]
					return w.calls[w.vals["c2"]].Done && w.netIdle() && a.r.LastIndex() == w.nodes[w.vals["L"]].r.LastIndex()
				}, func(w *World) {
					w.isolate(w.vals["L"], true)
					if l := w.nodes[w.vals["L"]]; l.r.State() == raft.Leader {
						w.apply(l, 0)
					}
				}),
				stepDo("B-meets-A", func(w *World) bool { return int(term(w, 1)) >= w.vals["T"]+3 }, func(w *World) { w.cut(1, w.vals["A"], false) }),
				stepDo("crash-B-for-good", func(w *World) bool { return int(term(w, w.vals["A"])) >= w.vals["T"]+3 && w.netIdle() }, func(w *World) {
					w.crash(w.nodes[1])
					w.vals["bdown"] = 1
				}),
			}}
	})
	regScenario("conv-term-gap", withQuietOpt("term-gap", []int{0, 1, 2}, false))
	regScenario("conv2-term-gap", withQuietOpt("term-gap", []int{2, 1, 0}, false))
	regScenario("conv-promote-cut", withQuietOpt("promote-cut", []int{0, 2, 1, 3}, false))
	regScenario("conv2-promote-cut", withQuietOpt("promote-cut", []int{3, 1, 0, 2}, false))
}

type isRec struct {
	count   int
	applied uint64
}

// convChecks runs at every quiescent point.
func (m *Monitors) convChecks() {
	w := m.w
	if w.vals["quiet"] != 1 || m.convFlagged {
		return
	}
	t0 := w.tvals["quiet"]
	// (1) within the bound: one leader that accepted and acknowledged a write
	if !m.convWriteOK && w.vals["probed"] == 1 {
		if c := w.calls[w.vals["probeCall"]]; c.Done && c.Err == nil {
			m.convWriteOK = true
		}
	}
	if w.now() > t0+convBound && !m.convWriteOK {
		m.convFlagged = true
		why := "no leader"
		if l := w.leader(); l != nil {
			why = fmt.Sprintf("leader n%d, state %s", l.id, w.stateString())
		}
		m.fail("C12", "no-convergence-within-bound", "faults stopped at %v; at %v (more than %v later) the cluster has not elected a leader and acknowledged a write: %s", t0, w.now(), convBound, why)
		return
	}
	// (2) every running member caught up. A leader retries an unreachable follower with exponential back-off, so
	// the next attempt may come as late as the follower had been unreachable: the fault phase lasted t0, hence
	// the allowance of t0 on top of the bound (a tighter bound would demand more than the property states).
	if w.now() > t0+convBound+t0 {
		if !(w.vals["probed"] == 1 && w.convergedState()) && !m.convReached {
			m.convFlagged = true
			why := "no leader"
			if l := w.leader(); l != nil {
				why = fmt.Sprintf("leader n%d, state %s", l.id, w.stateString())
			}
			m.fail("C12", "no-convergence-within-bound", "faults stopped at %v after a fault phase of that length; at %v (more than %v + %v later) not every running member has caught up: %s", t0, w.now(), convBound, t0, why)
		}
	} else if w.vals["probed"] == 1 && w.convergedState() {
		m.convReached = true
	}
}

// convOnDeliver: catch-up must make progress rather than repeat the same transfer.
func (m *Monitors) convOnDeliver(msg *Msg) {
	w := m.w
	req, ok := msg.Req.(*raft.InstallSnapshotRequest)
	if !ok || w.vals["quiet"] != 1 {
		return
	}
	n := w.nodes[msg.To]
	if n.r == nil {
		return
	}
	k := fmt.Sprintf("%d/%d/%d/%d", msg.To, n.inc, req.LastLogIndex, req.LastLogTerm)
	r := m.isSeen[k]
	if r == nil {
		r = &isRec{}
		m.isSeen[k] = r
	}
	ai := n.r.AppliedIndex()
	if r.count > 0 && ai != r.applied {
		r.count = 0
	}
	r.applied = ai
	r.count++
	if r.count >= 3 {
		m.fail("C12", "same-snapshot-sent-repeatedly", "n%d is sent the snapshot (%d, term %d) for the %d-th time after the faults stopped while its applied index stays at %d", msg.To, req.LastLogIndex, req.LastLogTerm, r.count, ai)
	}
}

var _ = time.Second
