package main

import (
	"bytes"
	"fmt"
	"io"
	"sort"
	"strings"
	"time"

	"github.com/hashicorp/go-hclog"
	"github.com/hashicorp/raft"
	"github.com/hashicorp/raft/zzverif/vrand"
	"github.com/hashicorp/raft/zzverif/vsched"
	"github.com/hashicorp/raft/zzverif/vtime"
)

// ---------------------------------------------------------------------------
// Deviation classes a scenario may enable.

type Dev uint32

const (
	DevDrop      Dev = 1 << iota // drop a request (caller gets an error)
	DevDropResp                  // drop a response
	DevReorder                   // deliver / reply out of FIFO order
	DevDup                       // redeliver an already delivered request
	DevLate                      // deliver a dropped request later
	DevTimer                     // fire a timer other than the earliest / before the network is idle
	DevCrash                     // crash a server at a quiescent point
	DevStore                     // storage operation: error / crash before / crash after
	DevStepEarly                 // perform the next scripted step before its default instant
	DevRestart                   // restart a crashed server at a non-default instant
	DevRand                      // random timeout extra = max instead of 0
	DevSelect                    // coarse mode: take another ready case of a select (Go chooses at random)
	DevStall                     // a StoreLogs hangs (slow disk) while the other threads of the server go on
	DevAllNet    = DevDrop | DevDropResp | DevReorder | DevDup | DevLate
	DevAll       = DevAllNet | DevTimer | DevCrash | DevStore | DevStepEarly | DevRestart | DevSelect | DevStall
)

// ---------------------------------------------------------------------------

type NodeSpec struct {
	Suffrage        raft.ServerSuffrage
	InBootstrap     bool // part of the bootstrap configuration
	StartUp         bool // started at time 0
	PreVoteDisabled bool
}

type Scenario struct {
	Name    string
	Nodes   []NodeSpec
	Store   StoreKind
	FSM     FSMKind
	Conf    func(i int, c *raft.Config)
	Steps   []Step
	Devs    Dev
	Horizon int  // max environment events
	Timed   bool // timers fire in deadline order only
	// Goal ends the execution (checked at quiescent points once the script is finished).
	Goal        func(w *World) bool
	AutoRestart bool
	Pipeline    bool
	NotifyCh    bool
	SlowFSM     bool // FSM applications are granted one by one by the environment (after scripted steps, before timers)
	HBFastPath  bool // heartbeats are handed to the registered heartbeat handler on a transport thread (as NetworkTransport does)
	Liveness    bool // at the end of the run every call must have resolved if it was issued long ago (virtual time and events)
	// GiveUpAt/GiveUpTo: when the script has not reached step GiveUpTo after GiveUpAt events (a deviation made a
	// guard unsatisfiable, or the implementation is stuck), the steps in between are skipped
	GiveUpAt int
	GiveUpTo string
	// Latency: one-way delay of a request in virtual time (nil or 0: delivered at the instant it was sent)
	Latency                func(w *World, from, to int, kind string) time.Duration
	Fine                   bool // branch on thread steps (preemption bounded)
	FineEnv                bool // fine mode: message deliveries / replies are also offered while threads are still runnable
	RCL                    bool // RestoreCommittedLogs
	NoStoreFaultBeforeStep int  // store faults only count from this script position on
}

type Step struct {
	Name string
	When func(w *World) bool
	Do   func(w *World)
	// EarlyWhen: with DevStepEarly the step is also offered (as a deviation) at every
	// quiescent point where this weaker guard holds, i.e. before its default instant.
	EarlyWhen func(w *World) bool
	// Urgent: by default the step is performed as soon as its guard holds, before pending network events.
	Urgent bool
}

type Node struct {
	id    int
	addr  raft.ServerAddress
	sid   raft.ServerID
	spec  NodeSpec
	store NodeStore
	snaps *VSnap
	conf  *raft.Config

	// volatile
	up           bool
	inc          int
	r            *raft.Raft
	fsm          *VFSM
	trans        *VTrans
	notifyCh     chan bool
	booted       bool
	bootErr      error
	everUp       bool
	crashedByDev bool
}

func (n *Node) group() int { return (n.id+1)*1000 + n.inc }

type MsgState int

const (
	mPending MsgState = iota
	mDelivered
	mReplied
	mFailed
)

type Msg struct {
	ID        int
	From, To  int
	FromInc   int
	Kind      string
	Req       any
	Body      []byte
	St        MsgState
	respCh    chan raft.RPCResponse
	Resp      raft.RPCResponse
	done      bool // caller released
	failed    bool
	Dropped   bool // request dropped to the caller but may still be delivered late
	Dupped    bool
	ToInc     int
	inFlight  bool // still travelling (Scenario.Latency); becomes deliverable when its network timer fires
	HandledAt int  // event number at which the handler's response became available (0 = not yet)
	DelivAt   int
	SentAt    int
	Discard   bool // response is thrown away (dup / late)
	held      bool // response withheld by a scripted fault
	bypass    bool // response already received by the caller's host: not affected by a later partition
	pipe      *vpipe
	pf        *vpipeFuture
}

func (m *Msg) String() string { return fmt.Sprintf("m%d %s %d->%d", m.ID, m.Kind, m.From, m.To) }

type Call struct {
	ID        int
	Node, Inc int
	Kind      string // apply, barrier, verify, addvoter, ...
	Payload   string
	InvokeEv  int
	ReturnEv  int
	Done      bool
	Err       error
	Index     uint64
	Resp      any
	Thread    *vsched.Thread
	InvokeNow time.Duration
	ReturnNow time.Duration
	Extra     any
}

type World struct {
	sc            *Scenario
	sched         *vsched.Sched
	rec           *Recorder
	nodes         []*Node
	msgs          []*Msg
	live          []*Msg // messages that can still produce transitions
	blocked       map[[2]int]bool
	events        int
	transitions   int
	stepPos       int
	calls         []*Call
	mon           *Monitors
	trace         []string
	keepTr        bool
	endWhy        string
	nextPay       int
	randMax       bool
	internalErr   string
	storeFaultsOn bool
	vals          map[string]int // scratch for scenarios
	fineNow       bool           // fine-grained thread exploration switched on (Scenario.Fine)
	timedNow      bool           // timers strictly in deadline order from now on
	noDevs        bool           // no deviations offered any more (faults stopped)
	tvals         map[string]time.Duration
	consumers     []*notifyConsumer
	crashMid      bool              // the crash in progress happens inside a storage operation
	holdResp      func(m *Msg) bool // scripted fault: withhold matching responses
	randExtra     map[int]int64     // per node: answer of rand.Int63() (timeout jitter)
	inj           injState
	stallNode     int // server whose store write hangs (-1: none)
	stallAt       int
	stallUsed     bool
}

const stallEvents = 120 // a stalled write completes by default after this many environment events

func (w *World) logf(f string, a ...any) {
	if w.keepTr {
		w.trace = append(w.trace, fmt.Sprintf("[%d t=%v] ", w.events, w.sched.Now)+fmt.Sprintf(f, a...))
	}
}

func nodeName(i int) string { return fmt.Sprintf("n%d", i) }

func (w *World) servers(filter func(NodeSpec) bool) []raft.Server {
	var out []raft.Server
	for i, ns := range w.sc.Nodes {
		if filter(ns) {
			out = append(out, raft.Server{ID: raft.ServerID(nodeName(i)), Address: raft.ServerAddress(nodeName(i)), Suffrage: ns.Suffrage})
		}
	}
	return out
}

func (w *World) baseConfig(i int) *raft.Config {
	c := raft.DefaultConfig()
	c.LocalID = raft.ServerID(nodeName(i))
	c.HeartbeatTimeout = 100 * time.Millisecond
	c.ElectionTimeout = 100 * time.Millisecond
	c.LeaderLeaseTimeout = 100 * time.Millisecond
	c.CommitTimeout = 50 * time.Millisecond
	c.SnapshotInterval = 1000 * time.Second
	c.SnapshotThreshold = 1 << 40
	c.TrailingLogs = 1 << 40
	c.Logger = hclog.NewNullLogger()
	c.PreVoteDisabled = w.sc.Nodes[i].PreVoteDisabled
	c.RestoreCommittedLogs = w.sc.RCL
	if w.sc.Conf != nil {
		w.sc.Conf(i, c)
	}
	return c
}

// setup runs on the main thread of the execution.
func (w *World) setup() {
	boot := raft.Configuration{Servers: w.servers(func(ns NodeSpec) bool { return ns.InBootstrap })}
	for i, ns := range w.sc.Nodes {
		n := &Node{id: i, addr: raft.ServerAddress(nodeName(i)), sid: raft.ServerID(nodeName(i)), spec: ns}
		if w.sc.Store == StoreInmem {
			n.store = NewInmemAdapter(i)
		} else {
			n.store = NewVStore(i, w.sc.Store, nil)
		}
		n.snaps = NewVSnap(i, nil)
		n.conf = w.baseConfig(i)
		w.nodes = append(w.nodes, n)
		if ns.InBootstrap {
			tr := &VTrans{w: w, n: n}
			if err := raft.BootstrapCluster(n.conf, n.store.LogStore(), n.store, n.snaps, tr, boot); err != nil {
				panic(fmt.Sprintf("bootstrap: %v", err))
			}
			w.mon.OnBootstrap(i, n.store)
		}
		n.store.setHooks(w)
		n.snaps.hooks = w
	}
	for _, n := range w.nodes {
		if n.spec.StartUp {
			w.start(n)
		}
	}
}

// start boots a (new incarnation of a) server in its own thread.
func (w *World) start(n *Node) {
	n.inc++
	n.up = true
	n.everUp = true
	n.booted = false
	n.bootErr = nil
	n.r = nil
	n.store.onRestart()
	n.fsm = &VFSM{node: n.id, inc: n.inc, hooks: w.mon, Slow: w.sc.SlowFSM}
	n.trans = &VTrans{w: w, n: n, inc: n.inc, cons: make(chan raft.RPC, 256)}
	conf := *n.conf
	if w.sc.NotifyCh {
		n.notifyCh = make(chan bool, 0)
		conf.NotifyCh = n.notifyCh
	}
	inc := n.inc
	w.mon.OnStart(n.id, inc, n)
	if w.sc.NotifyCh {
		w.startConsumer(n)
	}
	vsched.GoNamed(fmt.Sprintf("boot-n%d.%d", n.id, inc), n.group(), func() {
		r, err := raft.NewRaft(&conf, n.fsm.AsFSM(w.sc.FSM), n.store.LogStore(), n.store, n.snaps, n.trans)
		if n.inc != inc || !n.up {
			return
		}
		if err != nil {
			n.bootErr = err
			n.booted = true
			w.mon.OnBootError(n.id, inc, err)
			return
		}
		obs := raft.NewObserver(nil, false, func(o *raft.Observation) bool {
			if n.inc == inc && n.up {
				w.mon.OnObservation(n.id, inc, o)
			}
			return false
		})
		r.RegisterObserver(obs)
		n.r = r
		n.booted = true
		w.mon.OnBooted(n.id, inc, r)
	})
}

// crash kills the current incarnation of n.
func (w *World) crash(n *Node) {
	if !n.up {
		return
	}
	w.logf("CRASH n%d.%d", n.id, n.inc)
	n.up = false
	w.sched.KillGroup(n.group())
	vtime.StopGroup(n.group())
	w.mon.OnCrash(n.id, n.inc, w.crashMid)
	w.crashMid = false
	n.r = nil
	// calls in flight on this server never return; they are not stuck callers.
	for _, c := range w.calls {
		if c.Node == n.id && c.Inc == n.inc && !c.Done {
			c.Done = true
			c.Err = errCrashed
			c.ReturnEv = w.events
		}
	}
	// messages to the dead incarnation that were delivered but not answered fail
	for _, m := range w.live {
		if m.To == n.id && m.St == mDelivered && m.ToInc == n.inc {
			w.failMsg(m)
		}
	}
}

var errCrashed = fmt.Errorf("server crashed during call")

// ---------------------------------------------------------------------------
// StoreHooks / SnapHooks

func (w *World) nodeOfCur() *Node {
	t := vsched.Cur()
	if t == nil {
		return nil
	}
	g := t.Group
	if g < 1000 {
		return nil
	}
	id := g/1000 - 1
	if id < 0 || id >= len(w.nodes) {
		return nil
	}
	n := w.nodes[id]
	if n.group() != g {
		return nil
	}
	return n
}

func (w *World) Answer(node int, op string, mayFail bool) Fault {
	n := w.nodes[node]
	// scripted fault: the log store of one server rejects every StoreLogs for a while (a full or failing disk)
	if w.vals["failstore"] == node+1 && mayFail && n.booted && strings.HasPrefix(op, "StoreLogs") {
		w.logf("n%d %s error (scripted: store rejects writes)", node, op)
		return FaultError
	}
	if w.noDevs || w.sc.Devs&DevStore == 0 || !w.storeFaultsOn || !n.up || w.nodeOfCur() != n {
		return FaultNone
	}
	labels := []string{fmt.Sprintf("n%d %s ok", node, op), fmt.Sprintf("n%d %s crash-before", node, op), fmt.Sprintf("n%d %s crash-after", node, op), fmt.Sprintf("n%d %s error", node, op)}
	costs := []int{0, 1, 1, 1}
	if !mayFail || !n.booted {
		labels, costs = labels[:3], costs[:3]
	} else if w.sc.Devs&DevStall != 0 && w.stallNode < 0 && !w.stallUsed && strings.HasPrefix(op, "StoreLogs") && !w.sc.Timed && !w.timedNow {
		// a slow disk: the write hangs (and with it the thread that issued it - the main loop) while the rest of
		// the server and the rest of the world go on; it completes normally once the environment releases it
		labels = append(labels, fmt.Sprintf("n%d %s stall", node, op))
		costs = append(costs, 1)
	}
	k := w.rec.choose(labels, costs)
	switch k {
	case 4:
		w.logf("%s", labels[4])
		w.stallNode, w.stallAt, w.stallUsed = node, w.events, true
		inc := n.inc
		vsched.WaitAlways("store-stall", func() bool { return w.stallNode != node || n.inc != inc || !n.up })
		return FaultNone
	case 1:
		w.logf("%s", labels[1])
		w.crashMid = true
		n.crashedByDev = true
		w.crash(n)
		vsched.Halt()
	case 2:
		return FaultCrashAfter
	case 3:
		w.logf("%s", labels[3])
		return FaultError
	}
	return FaultNone
}

func (w *World) CrashNow(node int) {
	n := w.nodes[node]
	w.logf("n%d crash-after", node)
	w.crashMid = true
	n.crashedByDev = true
	w.crash(n)
	vsched.Halt()
}

func (w *World) OnStoreLogs(node int, logs []*raft.Log) {
	if w.keepTr {
		var sb strings.Builder
		for _, l := range logs {
			fmt.Fprintf(&sb, " %d/t%d/%d", l.Index, l.Term, l.Type)
		}
		w.logf("   n%d StoreLogs%s", node, sb.String())
	}
	w.mon.OnStoreLogs(node, logs)
}
func (w *World) OnDeleteRange(node int, min, max uint64, removed []*raft.Log) {
	w.logf("   n%d DeleteRange(%d,%d) removed %d", node, min, max, len(removed))
	w.mon.OnDeleteRange(node, min, max, removed)
}
func (w *World) OnStableSet(node int, key string, val []byte) { w.mon.OnStableSet(node, key, val) }
func (w *World) OnSnapshotDurable(node int, meta raft.SnapshotMeta, data []byte) {
	w.logf("   n%d snapshot durable: index %d term %d cfg@%d", node, meta.Index, meta.Term, meta.ConfigurationIndex)
	w.mon.OnSnapshotDurable(node, meta, data)
}

// ---------------------------------------------------------------------------
// Network

type VTrans struct {
	noNet bool // handler-level harnesses: every outgoing RPC fails at once
	w     *World
	n     *Node
	inc   int
	cons  chan raft.RPC
	hb    func(raft.RPC)
}

func (t *VTrans) Consumer() <-chan raft.RPC                                { return t.cons }
func (t *VTrans) LocalAddr() raft.ServerAddress                            { return t.n.addr }
func (t *VTrans) SetHeartbeatHandler(cb func(raft.RPC))                    { t.hb = cb }
func (t *VTrans) EncodePeer(id raft.ServerID, a raft.ServerAddress) []byte { return []byte(a) }
func (t *VTrans) DecodePeer(b []byte) raft.ServerAddress                   { return raft.ServerAddress(b) }

func (w *World) nodeByAddr(a raft.ServerAddress) int {
	for _, n := range w.nodes {
		if n.addr == a {
			return n.id
		}
	}
	return -1
}

func kindOfAE(a *raft.AppendEntriesRequest) string {
	if len(a.Entries) == 0 && a.PrevLogEntry == 0 && a.LeaderCommitIndex == 0 {
		return "HB"
	}
	return "AE"
}

func (t *VTrans) send(target raft.ServerAddress, kind string, req any, body []byte) *Msg {
	w := t.w
	to := w.nodeByAddr(target)
	m := &Msg{ID: len(w.msgs), From: t.n.id, FromInc: t.inc, To: to, Kind: kind, Req: req, Body: body,
		respCh: make(chan raft.RPCResponse, 1), SentAt: w.events}
	w.msgs = append(w.msgs, m)
	w.live = append(w.live, m)
	w.mon.OnSend(m)
	if w.sc.Latency != nil && to >= 0 {
		if d := w.sc.Latency(w, m.From, to, kind); d > 0 {
			m.inFlight = true
			vtime.AfterFuncGroup(d, -1, fmt.Sprintf("net m%d", m.ID), func() { m.inFlight = false })
		}
	}
	return m
}

// noNetCalls counts the RPCs refused by handler-level harness transports (lets an enumerator wait for the
// goroutines a handler spawned).
var noNetCalls int

func (t *VTrans) call(target raft.ServerAddress, kind string, req any, body []byte) (raft.RPCResponse, error) {
	if t.noNet {
		noNetCalls++
		return raft.RPCResponse{}, fmt.Errorf("no network (handler-level harness)")
	}
	m := t.send(target, kind, req, body)
	vsched.WaitAlways("rpc:"+kind, func() bool { return m.done })
	if m.failed {
		return raft.RPCResponse{}, fmt.Errorf("rpc failed (injected network fault)")
	}
	return m.Resp, m.Resp.Error
}

func (t *VTrans) AppendEntries(id raft.ServerID, target raft.ServerAddress, a *raft.AppendEntriesRequest, r *raft.AppendEntriesResponse) error {
	resp, err := t.call(target, kindOfAE(a), a, nil)
	if err != nil {
		return err
	}
	*r = *resp.Response.(*raft.AppendEntriesResponse)
	return nil
}
func (t *VTrans) RequestVote(id raft.ServerID, target raft.ServerAddress, a *raft.RequestVoteRequest, r *raft.RequestVoteResponse) error {
	resp, err := t.call(target, "RV", a, nil)
	if err != nil {
		return err
	}
	*r = *resp.Response.(*raft.RequestVoteResponse)
	return nil
}
func (t *VTrans) RequestPreVote(id raft.ServerID, target raft.ServerAddress, a *raft.RequestPreVoteRequest, r *raft.RequestPreVoteResponse) error {
	resp, err := t.call(target, "PV", a, nil)
	if err != nil {
		return err
	}
	*r = *resp.Response.(*raft.RequestPreVoteResponse)
	return nil
}
func (t *VTrans) InstallSnapshot(id raft.ServerID, target raft.ServerAddress, a *raft.InstallSnapshotRequest, r *raft.InstallSnapshotResponse, data io.Reader) error {
	body, err := io.ReadAll(data)
	if err != nil {
		return err
	}
	resp, err := t.call(target, "IS", a, body)
	if err != nil {
		return err
	}
	*r = *resp.Response.(*raft.InstallSnapshotResponse)
	return nil
}
func (t *VTrans) TimeoutNow(id raft.ServerID, target raft.ServerAddress, a *raft.TimeoutNowRequest, r *raft.TimeoutNowResponse) error {
	resp, err := t.call(target, "TN", a, nil)
	if err != nil {
		return err
	}
	*r = *resp.Response.(*raft.TimeoutNowResponse)
	return nil
}

// --- pipeline (optional flavour) -------------------------------------------

type vpipe struct {
	t        *VTrans
	target   raft.ServerAddress
	doneCh   chan raft.AppendFuture
	closed   bool
	inflight []*vpipeFuture
}

type vpipeFuture struct {
	m     *Msg
	start time.Time
	req   *raft.AppendEntriesRequest
	resp  *raft.AppendEntriesResponse
	err   error
	done  bool
}

func (f *vpipeFuture) Error() error {
	vsched.WaitAlways("pipefuture", func() bool { return f.done })
	return f.err
}
func (f *vpipeFuture) Start() time.Time                      { return f.start }
func (f *vpipeFuture) Request() *raft.AppendEntriesRequest   { return f.req }
func (f *vpipeFuture) Response() *raft.AppendEntriesResponse { return f.resp }

func (t *VTrans) AppendEntriesPipeline(id raft.ServerID, target raft.ServerAddress) (raft.AppendPipeline, error) {
	if !t.w.sc.Pipeline {
		return nil, raft.ErrPipelineReplicationNotSupported
	}
	return &vpipe{t: t, target: target, doneCh: make(chan raft.AppendFuture, 128)}, nil
}

func (p *vpipe) AppendEntries(a *raft.AppendEntriesRequest, r *raft.AppendEntriesResponse) (raft.AppendFuture, error) {
	if p.closed {
		return nil, raft.ErrPipelineShutdown
	}
	m := p.t.send(p.target, "AEp", a, nil)
	f := &vpipeFuture{m: m, start: vtime.Now(), req: a, resp: r}
	m.pipe, m.pf = p, f
	p.inflight = append(p.inflight, f)
	return f, nil
}
func (p *vpipe) Consumer() <-chan raft.AppendFuture { return p.doneCh }
func (p *vpipe) Close() error {
	p.closed = true
	return nil
}

// completePipe is called when a pipelined message is answered or failed: on a
// failure the whole pipeline (one connection) is broken; responses are handed
// over in send order.
func (w *World) completePipe(m *Msg) {
	p := m.pipe
	if m.failed {
		p.closed = true
		for _, f := range p.inflight {
			if !f.done {
				f.done = true
				f.err = fmt.Errorf("pipeline connection broken")
				f.m.done = true
				f.m.failed = true
				if f.m.St != mReplied {
					f.m.St = mFailed
				}
			}
		}
		p.inflight = nil
		return
	}
	*m.pf.resp = *m.Resp.Response.(*raft.AppendEntriesResponse)
	m.pf.done = true
	if m.Resp.Error != nil {
		m.pf.err = m.Resp.Error
	}
	// hand over in order
	for len(p.inflight) > 0 && p.inflight[0].done {
		f := p.inflight[0]
		p.inflight = p.inflight[1:]
		if !p.closed && f.err == nil {
			select {
			case p.doneCh <- f:
			default:
			}
		}
	}
}

// ---------------------------------------------------------------------------
// Message transitions

func (w *World) linkOK(a, b int) bool { return !w.blocked[[2]int{a, b}] }

func (w *World) failMsg(m *Msg) {
	if m.St != mReplied {
		m.St = mFailed
	}
	if !m.done {
		m.done = true
		m.failed = true
		if m.pipe != nil {
			w.completePipe(m)
		}
	}
}

func (w *World) deliver(m *Msg, discard bool) {
	tn := w.nodes[m.To]
	ch := m.respCh
	if discard {
		ch = make(chan raft.RPCResponse, 1)
	}
	rpc := raft.RPC{Command: m.Req, RespChan: ch}
	if m.Body != nil || m.Kind == "IS" {
		rpc.Reader = bytes.NewReader(m.Body)
	}
	if w.sc.HBFastPath && m.Kind == "HB" && tn.trans.hb != nil {
		// heartbeat fast path: the handler runs on a thread of the transport, concurrently with the main loop
		hb := tn.trans.hb
		if !discard {
			m.St = mDelivered
			m.ToInc = tn.inc
			m.DelivAt = w.events
		}
		w.mon.OnDeliver(m, tn.inc, discard)
		vsched.GoNamed(fmt.Sprintf("hb-n%d", tn.id), tn.group(), func() { hb(rpc) })
		return
	}
	select {
	case tn.trans.cons <- rpc:
		if !discard {
			m.St = mDelivered
			m.ToInc = tn.inc
			m.DelivAt = w.events
		}
		w.mon.OnDeliver(m, tn.inc, discard)
	default:
		if !discard {
			w.failMsg(m)
		}
	}
}

func (w *World) reply(m *Msg) {
	m.Resp = <-m.respCh
	m.St = mReplied
	m.done = true
	w.mon.OnReply(m)
	if m.pipe != nil {
		w.completePipe(m)
	}
}

// ---------------------------------------------------------------------------
// Environment options at a quiescent point (default first).

type envOpt struct {
	label string
	cost  int
	do    func()
}

func (w *World) pruneLive() {
	k := 0
	for _, m := range w.live {
		keep := false
		switch m.St {
		case mPending:
			keep = true
		case mDelivered:
			keep = true
		case mReplied:
			keep = !m.Dupped && w.sc.Devs&DevDup != 0 && w.events-m.DelivAt < 12
		case mFailed:
			keep = m.Dropped && w.sc.Devs&DevLate != 0 && w.events-m.SentAt < 12
		}
		if keep {
			w.live[k] = m
			k++
		}
	}
	for i := k; i < len(w.live); i++ {
		w.live[i] = nil
	}
	w.live = w.live[:k]
}

func (w *World) canReach(m *Msg) bool {
	tn := w.nodes[m.To]
	return m.To >= 0 && tn.up && tn.booted && tn.r != nil && w.linkOK(m.From, m.To)
}

func (w *World) envOptions() []envOpt {
	var def, alts []envOpt
	devs := w.sc.Devs
	addDef := func(o envOpt) {
		if len(def) == 0 {
			o.cost = 0
			def = append(def, o)
		} else if o.cost >= 0 {
			alts = append(alts, o)
		}
	}
	w.pruneLive()
	if w.sc.GiveUpAt > 0 && w.events >= w.sc.GiveUpAt {
		for i, st := range w.sc.Steps {
			if st.Name == w.sc.GiveUpTo && w.stepPos < i {
				w.logf("script stalled at step %s after %d events: skipping to %s", w.sc.Steps[w.stepPos].Name, w.events, st.Name)
				w.stepPos = i
			}
		}
	}
	// a stalled store write completes (default) once it has lasted long enough
	if w.stallNode >= 0 {
		sn := w.nodes[w.stallNode]
		if !sn.up {
			w.stallNode = -1
		} else {
			id := w.stallNode
			o := envOpt{label: fmt.Sprintf("stalled write of n%d completes", id), cost: 1, do: func() { w.stallNode = -1 }}
			if w.events-w.stallAt >= stallEvents || w.noDevs || w.timedNow {
				addDef(o) // (when the faults stop, a stalled write completes at once)
			} else if (w.events-w.stallAt)%10 == 5 {
				alts = append(alts, o) // an earlier completion is a further deviation (offered every tenth event)
			}
		}
	}
	// an injected isolation ends (default) once it has lasted long enough
	if h := w.injectHeal(); h != nil {
		addDef(*h)
	}
	// 0. urgent scripted step
	if w.stepPos < len(w.sc.Steps) && w.sc.Steps[w.stepPos].Urgent {
		st := w.sc.Steps[w.stepPos]
		pos := w.stepPos
		if st.When == nil || safeWhen(st.When, w) {
			addDef(envOpt{label: "step " + st.Name, cost: 1, do: func() {
				w.stepPos = pos + 1
				w.logf("STEP %s", st.Name)
				defer func() {
					if v := recover(); v != nil {
						w.logf("STEP %s not applicable in this state (%v)", st.Name, v)
					}
				}()
				st.Do(w)
			}})
		}
	}
	// 1. replies
	for _, m := range w.live {
		m := m
		if m.St != mDelivered || len(m.respCh) == 0 {
			continue
		}
		if m.HandledAt == 0 {
			m.HandledAt = w.events
			w.mon.OnHandled(m)
			if w.holdResp != nil && w.holdResp(m) {
				m.held = true
				w.logf("HOLD response of %s", m.String())
			}
		}
		if m.held {
			continue
		}
		callerAlive := w.nodes[m.From].up && w.nodes[m.From].inc == m.FromInc
		if !callerAlive {
			m.St = mReplied
			<-m.respCh
			continue
		}
		if !w.linkOK(m.To, m.From) && !m.bypass {
			addDef(envOpt{label: "fail-resp " + m.String(), do: func() { w.failMsg(m) }})
			continue
		}
		c := 1
		if devs&DevReorder == 0 {
			c = -1
		}
		addDef(envOpt{label: "reply " + m.String(), cost: c, do: func() { w.reply(m) }})
		if devs&DevDropResp != 0 {
			alts = append(alts, envOpt{label: "drop-resp " + m.String(), cost: 1, do: func() { <-m.respCh; w.failMsg(m) }})
		}
	}
	// 2. deliveries
	for _, m := range w.live {
		m := m
		if m.St != mPending || m.inFlight {
			continue
		}
		if m.To < 0 {
			w.failMsg(m)
			continue
		}
		if !w.canReach(m) {
			c := 1
			if devs&DevReorder == 0 {
				c = -1
			}
			addDef(envOpt{label: "fail " + m.String(), cost: c, do: func() { w.failMsg(m) }})
			continue
		}
		c := 1
		if devs&DevReorder == 0 {
			c = -1
		}
		addDef(envOpt{label: "deliver " + m.String(), cost: c, do: func() { w.deliver(m, false) }})
		if devs&DevDrop != 0 {
			alts = append(alts, envOpt{label: "drop " + m.String(), cost: 1, do: func() { m.Dropped = true; w.failMsg(m) }})
		}
	}
	// dup / late
	for _, m := range w.live {
		m := m
		if m.St == mReplied && !m.Dupped && devs&DevDup != 0 && w.canReach(m) && (m.Kind == "AE" || m.Kind == "RV" || m.Kind == "AEp" || m.Kind == "IS") {
			alts = append(alts, envOpt{label: "dup " + m.String(), cost: 1, do: func() { m.Dupped = true; w.deliver(m, true) }})
		}
		if m.St == mFailed && m.Dropped && devs&DevLate != 0 && w.canReach(m) {
			alts = append(alts, envOpt{label: "late " + m.String(), cost: 1, do: func() { m.Dropped = false; w.deliver(m, true) }})
		}
	}
	// notification consumers: allowing the next read is a decision of the environment
	for _, nc := range w.consumers {
		nc := nc
		n := w.nodes[nc.node]
		if n.up && n.inc == nc.inc && nc.permits == len(nc.reads) && !nc.waiting {
			addDef(envOpt{label: fmt.Sprintf("consumer n%d may read", nc.node), cost: 1, do: func() { nc.permits++ }})
		}
	}
	// 3. scripted step
	if w.stepPos < len(w.sc.Steps) && !w.sc.Steps[w.stepPos].Urgent {
		st := w.sc.Steps[w.stepPos]
		pos := w.stepPos
		do := func() {
			w.stepPos = pos + 1
			w.logf("STEP %s", st.Name)
			defer func() {
				if v := recover(); v != nil {
					w.logf("STEP %s not applicable in this state (%v)", st.Name, v)
				}
			}()
			st.Do(w)
		}
		if st.When == nil || safeWhen(st.When, w) {
			c := 1
			if devs&DevStepEarly == 0 {
				c = -1
			}
			addDef(envOpt{label: "step " + st.Name, cost: c, do: do})
		} else if devs&DevStepEarly != 0 && st.EarlyWhen != nil && safeWhen(st.EarlyWhen, w) {
			alts = append(alts, envOpt{label: "step " + st.Name + " (early)", cost: 1, do: do})
		}
	}
	// slow FSMs: the next application proceeds
	if w.sc.SlowFSM {
		for _, n := range w.nodes {
			n := n
			if n.up && n.fsm != nil && n.fsm.Asked > n.fsm.Permits {
				addDef(envOpt{label: fmt.Sprintf("fsm n%d applies", n.id), cost: 1, do: func() { n.fsm.Permits++ }})
			}
		}
	}
	// 4. auto restart
	for _, n := range w.nodes {
		n := n
		if !n.up && n.everUp && n.crashedByDev {
			o := envOpt{label: fmt.Sprintf("restart n%d", n.id), cost: 1, do: func() { w.logf("RESTART n%d", n.id); w.start(n) }}
			if devs&DevRestart == 0 {
				o.cost = -1
			}
			if w.sc.AutoRestart {
				addDef(o)
			} else if o.cost > 0 {
				alts = append(alts, o)
			}
		}
	}
	// 5. timers
	for _, tm := range vtime.Pending() {
		tm := tm
		c := 1
		if devs&DevTimer == 0 {
			c = -1
		}
		if w.sc.Timed || w.timedNow {
			c = -1 // timed regime: strictly in deadline order, after the network is idle
		}
		addDef(envOpt{label: fmt.Sprintf("timer g%d %s +%v", tm.Group, tm.Owner, tm.Deadline), cost: c, do: func() { vtime.Fire(tm) }})
	}
	// crash at a quiescent point
	if devs&DevCrash != 0 {
		for _, n := range w.nodes {
			n := n
			if n.up && n.booted {
				alts = append(alts, envOpt{label: fmt.Sprintf("crash n%d", n.id), cost: 1, do: func() { n.crashedByDev = true; w.crash(n) }})
			}
		}
	}
	if devs&DevInject != 0 && !w.noDevs {
		alts = append(alts, w.injectOptions()...)
	}
	if len(def) == 0 {
		return nil
	}
	if w.noDevs {
		return def
	}
	return append(def, alts...)
}

// EnvFn adapts envOptions to the scheduler: in coarse mode the recorder decides here.
func (w *World) scriptDone() bool { return w.stepPos >= len(w.sc.Steps) }

// ---------------------------------------------------------------------------
// helpers used by scenarios and monitors

func (w *World) leader() *Node {
	var l *Node
	for _, n := range w.nodes {
		if n.up && n.r != nil && n.r.State() == raft.Leader {
			if l != nil {
				// two leaders (different terms possible): prefer the higher term
				if n.r.CurrentTerm() > l.r.CurrentTerm() {
					l = n
				}
				continue
			}
			l = n
		}
	}
	return l
}

func (w *World) allBooted() bool {
	for _, n := range w.nodes {
		if n.up && !n.booted {
			return false
		}
	}
	return true
}

func (w *World) callsDone() bool {
	for _, c := range w.calls {
		if !c.Done {
			return false
		}
	}
	return true
}

func (w *World) netIdle() bool {
	for _, m := range w.live {
		if m.St == mPending || m.St == mDelivered {
			return false
		}
	}
	return true
}

// stableLeader: a leader exists, has committed an entry of its term, network idle.
func (w *World) stableLeader() *Node {
	l := w.leader()
	if l == nil || !w.allBooted() {
		return nil
	}
	d := l.r.VerifDump()
	if d.CommitIndex < d.LeaderStartIndex || d.LeaderStartIndex == 0 {
		return nil
	}
	return l
}

// converged: one leader, every up server in its configuration has applied the leader's commit index.
func (w *World) converged() bool { return w.callsDone() && w.convergedState() }

// convergedState: as converged, without asking that every client call has resolved (that is C17's subject; C12
// judges the cluster's state).
func (w *World) convergedState() bool {
	l := w.stableLeader()
	if l == nil {
		return false
	}
	ci := l.r.CommitIndex()
	if ci != l.r.LastIndex() || l.r.AppliedIndex() != ci {
		return false
	}
	cfg := l.r.VerifDump().Latest
	for _, s := range cfg.Servers {
		n := w.nodes[w.nodeByAddr(s.Address)]
		if !n.up {
			continue
		}
		if n.r == nil || n.r.AppliedIndex() != ci || n.r.CommitIndex() != ci {
			return false
		}
		if !w.linkOK(l.id, n.id) {
			continue
		}
	}
	return true
}

func (w *World) newPayload() string {
	w.nextPay++
	return fmt.Sprintf("c%d", w.nextPay)
}

// client starts a client thread performing fn and records the call.
func (w *World) client(n *Node, kind, payload string, fn func(c *Call, r *raft.Raft)) *Call {
	c := &Call{ID: len(w.calls), Node: n.id, Inc: n.inc, Kind: kind, Payload: payload, InvokeEv: w.events, InvokeNow: w.sched.Now}
	w.calls = append(w.calls, c)
	r := n.r
	w.mon.OnInvoke(c)
	c.Thread = vsched.GoNamed(fmt.Sprintf("client%d-%s", c.ID, kind), 100+c.ID, func() {
		fn(c, r)
		if c.Done { // server crashed meanwhile
			return
		}
		c.Done = true
		c.ReturnEv = w.events
		c.ReturnNow = w.sched.Now
		w.mon.OnReturn(c)
	})
	return c
}

func (w *World) apply(n *Node, timeout time.Duration) *Call {
	p := w.newPayload()
	return w.client(n, "apply", p, func(c *Call, r *raft.Raft) {
		f := r.Apply([]byte(p), timeout)
		c.Err = f.Error()
		if c.Err == nil {
			c.Index = f.Index()
			c.Resp = f.Response()
		}
	})
}

func (w *World) barrier(n *Node) *Call {
	return w.client(n, "barrier", "", func(c *Call, r *raft.Raft) {
		f := r.Barrier(0)
		c.Err = f.Error()
		if c.Err == nil {
			if ix, ok := f.(raft.IndexFuture); ok {
				c.Index = ix.Index()
			}
		}
	})
}

func (w *World) stateString() string {
	var sb strings.Builder
	for _, n := range w.nodes {
		if !n.up || n.r == nil {
			fmt.Fprintf(&sb, "n%d:down(last=%d) ", n.id, n.store.Hi())
			continue
		}
		fmt.Fprintf(&sb, "n%d:%v/t%d/l%d/c%d/a%d ", n.id, n.r.State(), n.r.CurrentTerm(), n.r.LastIndex(), n.r.CommitIndex(), n.r.AppliedIndex())
	}
	return sb.String()
}

// abstractKey summarises the global state at a quiescent point (used only to count distinct states).
func (w *World) abstractKey() string {
	var sb strings.Builder
	for _, n := range w.nodes {
		fmt.Fprintf(&sb, "|n%d u%v ", n.id, n.up)
		if n.up && n.r != nil {
			fmt.Fprintf(&sb, "%d/%d/%d/%d/%d", n.r.State(), n.r.CurrentTerm(), n.r.LastIndex(), n.r.CommitIndex(), n.r.AppliedIndex())
		}
		fmt.Fprintf(&sb, " T%d V%d:%s L", n.store.U64("CurrentTerm"), n.store.U64("LastVoteTerm"), n.store.Bytes("LastVoteCand"))
		for _, i := range n.store.Indexes() {
			fmt.Fprintf(&sb, "%d.%d,", i, n.store.Peek(i).Term)
		}
		if s := n.snaps.Newest(); s != nil {
			fmt.Fprintf(&sb, " S%d.%d", s.meta.Index, s.meta.Term)
		}
	}
	var ms []string
	for _, m := range w.live {
		if m.St == mPending || m.St == mDelivered {
			ms = append(ms, fmt.Sprintf("%s%d>%d:%d", m.Kind, m.From, m.To, m.St))
		}
	}
	sort.Strings(ms)
	sb.WriteString(strings.Join(ms, ","))
	fmt.Fprintf(&sb, "|s%d", w.stepPos)
	return sb.String()
}

func init() {
	vrand.Int63Fn = func() int64 { return 0 }
}

// safeWhen evaluates a step guard; a guard that cannot be evaluated in the
// current state (e.g. it refers to a server that a deviation crashed) is false.
func safeWhen(f func(*World) bool, w *World) (ok bool) {
	defer func() {
		if v := recover(); v != nil {
			ok = false
		}
	}()
	return f(w)
}

// setFine switches fine-grained thread exploration on/off (only in scenarios with Fine set).
func (w *World) setFine(on bool) {
	w.fineNow = on
	w.sched.Fine = on && w.sc.Fine
}

func (w *World) now() time.Duration { return w.sched.Now }
