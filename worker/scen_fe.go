package main

import (
	"github.com/hashicorp/raft"
)

// FineEnv scenarios ("fe-*"): three real servers; from a scripted instant on, every select / lock / wait of every
// thread of every server is a branching point AND message deliveries / replies are offered while threads are still
// runnable. Two environment events can therefore be in flight inside one server at once (the acknowledgement that
// completes a quorum and the RPC that deposes the leader; a vote reply and an AppendEntries of the rival), which
// the coarse mode (one event, then run to quiescence) and the plain fine mode (next event only at quiescence)
// cannot produce. Each preemption, alternative ready select case, free scheduling choice and early network event
// costs one deviation.

func init() {
	conf := func(i int, c *raft.Config) { c.MaxAppendEntries = 2 }
	// two writes racing on the leader, replication to both followers
	regScenario("fe-write3", func() *Scenario {
		return &Scenario{Nodes: voters(3), Fine: true, FineEnv: true, Devs: 0, Horizon: 400, Conf: conf,
			Goal: func(w *World) bool { return w.vals["go"] == 1 && w.converged() },
			Steps: []Step{
				stepApplyLeader("apply0"),
				stepDo("two-applies+barrier (fine)", whenSettled, func(w *World) {
					l := w.leader()
					w.vals["go"] = 1
					w.setFine(true)
					w.apply(l, 0)
					w.apply(l, 0)
					w.barrier(l)
				}),
			}}
	})
	// the election itself under fine-grained scheduling: vote requests, replies and the winner's first AppendEntries
	regScenario("fe-elect3", func() *Scenario {
		return &Scenario{Nodes: voters(3), Fine: true, FineEnv: true, Devs: 0, Horizon: 300,
			Goal: func(w *World) bool { return w.vals["go"] == 1 && w.converged() },
			Steps: []Step{
				stepDo("fine-from-the-first-timeout", func(w *World) bool { return w.allBooted() }, func(w *World) {
					w.vals["go"] = 1
					w.setFine(true)
				}),
			}}
	})
	// a deposed leader with a write in flight rejoins: its replication meets the new term while the new leader's
	// AppendEntries arrive
	regScenario("fe-stepdown3", func() *Scenario {
		return &Scenario{Nodes: voters(3), Fine: true, FineEnv: true, Devs: 0, Horizon: 700, Conf: conf, Liveness: true,
			Goal: func(w *World) bool { return w.vals["go"] == 1 && w.converged() },
			Steps: []Step{
				stepApplyLeader("apply1"),
				stepDo("isolate-leader+apply", whenSettled, func(w *World) {
					l := w.leader()
					w.vals["old"] = l.id
					w.isolate(l.id, true)
					w.apply(l, 0)
				}),
				stepDo("apply-on-new-leader", func(w *World) bool {
					l := w.stableLeader()
					return l != nil && l.id != w.vals["old"] && w.netIdle()
				}, func(w *World) { w.apply(w.leader(), 0) }),
				stepDo("heal (fine)", func(w *World) bool {
					l := w.stableLeader()
					return l != nil && l.id != w.vals["old"] && w.netIdle() && l.r.CommitIndex() == l.r.LastIndex()
				}, func(w *World) {
					w.vals["go"] = 1
					w.setFine(true)
					w.isolate(w.vals["old"], false)
					w.apply(w.nodes[w.vals["old"]], 0)
					w.verify(w.nodes[w.vals["old"]])
				}),
			}}
	})
	// a server without pre-vote was cut off, pumped its term and is reconnected while the leader has a write in
	// flight: the acknowledgement that commits the write and the vote request that deposes the leader race
	regScenario("fe-depose-ack3", func() *Scenario {
		ns := voters(3)
		for i := range ns {
			ns[i].PreVoteDisabled = true
		}
		return &Scenario{Nodes: ns, Fine: true, FineEnv: true, Devs: 0, Horizon: 700, Conf: conf, Liveness: true,
			Goal: func(w *World) bool { return w.vals["go"] == 1 && w.converged() },
			Steps: []Step{
				stepApplyLeader("apply1"),
				stepDo("isolate-follower", whenSettled, func(w *World) { f := w.aFollower(); w.vals["iso"] = f.id; w.isolate(f.id, true) }),
				stepDo("heal+apply (fine)", func(w *World) bool {
					f := w.nodes[w.vals["iso"]]
					l := w.leader()
					return l != nil && f.r.State() == raft.Candidate && f.r.CurrentTerm() > l.r.CurrentTerm() && w.netIdle()
				}, func(w *World) {
					w.vals["go"] = 1
					w.setFine(true)
					w.isolate(w.vals["iso"], false)
					l := w.leader()
					w.apply(l, 0)
					w.apply(l, 0)
				}),
			}}
	})
	// leadership transfer racing a write
	regScenario("fe-transfer3", func() *Scenario {
		return &Scenario{Nodes: voters(3), Fine: true, FineEnv: true, Devs: 0, Horizon: 500, Conf: conf, Liveness: true,
			Goal: func(w *World) bool { return w.vals["go"] == 1 && w.converged() },
			Steps: []Step{
				stepApplyLeader("apply1"),
				stepDo("transfer+apply (fine)", whenSettled, func(w *World) {
					l := w.leader()
					w.vals["go"] = 1
					w.setFine(true)
					w.transfer(l, -1)
					w.apply(l, 0)
				}),
			}}
	})
	// a voter is added while a write is in flight
	regScenario("fe-addvoter3", func() *Scenario {
		ns := append(voters(3), NodeSpec{Suffrage: raft.Voter, StartUp: true})
		return &Scenario{Nodes: ns, Fine: true, FineEnv: true, Devs: 0, Horizon: 600, Conf: conf, Liveness: true,
			Goal: func(w *World) bool { return w.vals["go"] == 1 && w.converged() },
			Steps: []Step{
				stepApplyLeader("apply1"),
				stepDo("addvoter+apply+verify (fine)", whenSettled, func(w *World) {
					l := w.leader()
					w.vals["go"] = 1
					w.setFine(true)
					w.addVoter(l, 3, 0)
					w.apply(l, 0)
					w.verify(l)
				}),
			}}
	})
}

func init() {
	// A leader whose main loop hangs in a store write (slow disk: the "stall" answer of a StoreLogs, one deviation)
	// while it is cut off, is superseded, is asked to VerifyLeader and is reconnected: its replication and heartbeat
	// threads keep running and meet the new term long before the main loop can step down.
	regScenario("stall-deposed3", func() *Scenario {
		ns := append(voters(3), NodeSpec{Suffrage: raft.Voter, StartUp: true})
		return &Scenario{Nodes: ns, Devs: DevStore | DevStall | DevSelect, Horizon: 900, Liveness: true, AutoRestart: true,
			Goal: func(w *World) bool { return w.scriptDone() && w.converged() },
			Steps: []Step{
				stepApplyLeader("apply1"),
				stepDo("isolate-leader+apply", whenSettled, func(w *World) {
					l := w.leader()
					w.vals["old"] = l.id
					w.isolate(l.id, true)
					w.apply(l, 0)
					w.addVoter(l, 3, 0) // (its replication to the new server starts when the entry has been stored)
				}),
				stepDo("verify-on-old-leader", func(w *World) bool {
					l := w.stableLeader()
					return l != nil && l.id != w.vals["old"] && w.netIdle()
				}, func(w *World) {
					if o := w.nodes[w.vals["old"]]; o.up && o.r != nil {
						w.verify(o)
					}
				}),
				stepDo("heal", func(w *World) bool { return w.netIdle() }, func(w *World) { w.isolate(w.vals["old"], false) }),
				stepDo("apply-final", whenSettled, func(w *World) { w.apply(w.leader(), 0) }),
			}}
	})
}
