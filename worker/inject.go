package main

import (
	"fmt"
	"strings"

	"github.com/hashicorp/raft"
)

// Operation injection (DevInject): at every quiescent point the environment may, as ONE deviation, perform a
// public-API call nobody scripted - on any running server - or cut a server off for a while. The scripted
// scenario then continues. This turns every scenario into a family of situations "the script, plus one (or two)
// unexpected operations at an arbitrary instant": a snapshot on a follower that was just caught up by
// InstallSnapshot, a VerifyLeader while a membership change is in flight, a Restore with uncommitted entries, a
// transfer during a write, a demotion during the current leadership ... All oracles are the generic ones.
//
// A scenario "<base>+inj" is <base> with Devs = DevInject only (the standard deviations of <base> are explored by
// the unit <base> itself); "<base>+injf" is <base> with Devs |= DevInject (injection combined with faults).

const DevInject Dev = 1 << 20

type injState struct {
	n       int // operations injected so far
	iso     int // server cut off by an injection (-1: none)
	isoAt   int
	restore int
}

const injIsoEvents = 60 // an injected isolation is healed after this many environment events (once the network is idle)

func (w *World) injectOptions() []envOpt {
	var out []envOpt
	if !w.allBooted() {
		return nil
	}
	add := func(label string, do func()) {
		out = append(out, envOpt{label: "inject " + label, cost: 1, do: func() {
			w.inj.n++
			w.logf("INJECT %s", label)
			defer func() {
				if v := recover(); v != nil {
					w.logf("INJECT %s not applicable in this state (%v)", label, v)
				}
			}()
			do()
		}})
	}
	l := w.leader()
	for _, n := range w.nodes {
		n := n
		if !n.up || n.r == nil || !n.booted {
			continue
		}
		add(fmt.Sprintf("apply@n%d", n.id), func() { w.apply(n, 0) })
		add(fmt.Sprintf("snapshot@n%d", n.id), func() { w.snapshot(n) })
		if n == l || n.r.State() == raft.Leader {
			add(fmt.Sprintf("verify@n%d", n.id), func() { w.verify(n) })
			add(fmt.Sprintf("barrier@n%d", n.id), func() { w.barrier(n) })
		}
		if w.inj.iso < 0 {
			add(fmt.Sprintf("isolate n%d", n.id), func() {
				w.inj.iso = n.id
				w.inj.isoAt = w.events
				w.isolate(n.id, true)
			})
		}
	}
	// operations only a leader accepts: on every server that believes it leads (a deposed one included)
	for _, n := range w.nodes {
		n := n
		if !n.up || n.r == nil || !n.booted || n.r.State() != raft.Leader {
			continue
		}
		cfg := n.r.VerifDump().Latest
		in := map[raft.ServerID]raft.ServerSuffrage{}
		for _, s := range cfg.Servers {
			in[s.ID] = s.Suffrage
		}
		nvoters := 0
		for _, s := range cfg.Servers {
			if s.Suffrage == raft.Voter {
				nvoters++
			}
		}
		for _, o := range w.nodes {
			o := o
			suff, member := in[o.sid]
			switch {
			case !member && o.everUp:
				add(fmt.Sprintf("addnonvoter n%d@n%d", o.id, n.id), func() { w.addNonvoter(n, o.id, 0) })
				add(fmt.Sprintf("addvoter n%d@n%d", o.id, n.id), func() { w.addVoter(n, o.id, 0) })
			case member && suff == raft.Voter:
				if nvoters > 1 {
					add(fmt.Sprintf("demote n%d@n%d", o.id, n.id), func() { w.demote(n, o.id, 0) })
					add(fmt.Sprintf("remove n%d@n%d", o.id, n.id), func() { w.remove(n, o.id, 0) })
				}
				if o != n {
					add(fmt.Sprintf("transfer->n%d@n%d", o.id, n.id), func() { w.transfer(n, o.id) })
				}
			case member:
				add(fmt.Sprintf("promote n%d@n%d", o.id, n.id), func() { w.addVoter(n, o.id, 0) })
				add(fmt.Sprintf("remove n%d@n%d", o.id, n.id), func() { w.remove(n, o.id, 0) })
				add(fmt.Sprintf("transfer->n%d@n%d", o.id, n.id), func() { w.transfer(n, o.id) })
			}
		}
		add(fmt.Sprintf("transfer@n%d", n.id), func() { w.transfer(n, -1) })
		add(fmt.Sprintf("restore@n%d", n.id), func() {
			w.inj.restore++
			w.restore(n, n.r.LastIndex()+uint64(w.inj.restore), fmt.Sprintf("inj%d", w.inj.restore))
		})
	}
	return out
}

// injectHeal: the default continuation after an injected isolation.
func (w *World) injectHeal() *envOpt {
	if w.inj.iso < 0 || w.events-w.inj.isoAt < injIsoEvents || !w.netIdle() {
		return nil
	}
	id := w.inj.iso
	return &envOpt{label: fmt.Sprintf("heal injected isolation of n%d", id), cost: 1, do: func() {
		w.logf("HEAL injected isolation of n%d", id)
		w.isolate(id, false)
		w.inj.iso = -1
	}}
}

// scenario name suffixes
func injectVariant(name string) *Scenario {
	var base string
	var only bool
	switch {
	case strings.HasSuffix(name, "+injf"):
		base = strings.TrimSuffix(name, "+injf")
	case strings.HasSuffix(name, "+inj"):
		base, only = strings.TrimSuffix(name, "+inj"), true
	default:
		return nil
	}
	sc := scenarioByName(base)
	if sc == nil {
		return nil
	}
	if only {
		sc.Devs = DevInject
	} else {
		sc.Devs |= DevInject
	}
	sc.Name = name
	sc.AutoRestart = true
	sc.Horizon += 150
	return sc
}
