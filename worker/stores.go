package main

import (
	"bytes"
	"errors"
	"fmt"
	"io"
	"sort"

	"github.com/hashicorp/raft"
)

// ---------------------------------------------------------------------------
// VStore: LogStore + StableStore (+ optional MonotonicLogStore, CommitTrackingLogStore).
// What the maps hold after a call returns IS the durable image.

type StoreKind int

const (
	StorePlain StoreKind = iota
	StoreMonotonic
	StoreCommitTracking
	StoreInmem // the library's own InmemStore behind the fault/observation hooks
)

func (k StoreKind) String() string {
	return [...]string{"plain", "monotonic", "committrack", "inmem"}[k]
}

type Fault int

const (
	FaultNone Fault = iota
	FaultError
	FaultCrashBefore
	FaultCrashAfter
)

var errInjected = errors.New("injected store failure")

// StoreHooks lets the world observe and disturb store operations.
type StoreHooks interface {
	// Answer is called before a mutating operation; the hook may crash the caller (never returns then).
	Answer(node int, op string, mayFail bool) Fault
	// After is called after the operation took effect (crash-after is handled by the caller of After).
	CrashNow(node int)
	OnStoreLogs(node int, logs []*raft.Log)
	OnDeleteRange(node int, min, max uint64, removed []*raft.Log)
	OnStableSet(node int, key string, val []byte)
}

type VStore struct {
	node   int
	kind   StoreKind
	hooks  StoreHooks
	logs   map[uint64]*raft.Log
	lo, hi uint64
	kv     map[string][]byte
	kvU    map[string]uint64
	staged uint64 // volatile
	commit uint64 // durable (commit tracking)
	hasCT  bool
	Ops    int
}

func NewVStore(node int, kind StoreKind, hooks StoreHooks) *VStore {
	return &VStore{node: node, kind: kind, hooks: hooks, logs: map[uint64]*raft.Log{}, kv: map[string][]byte{}, kvU: map[string]uint64{}}
}

func cloneLog(l *raft.Log) *raft.Log {
	c := *l
	c.Data = append([]byte(nil), l.Data...)
	c.Extensions = append([]byte(nil), l.Extensions...)
	return &c
}

func (s *VStore) FirstIndex() (uint64, error) { return s.lo, nil }
func (s *VStore) LastIndex() (uint64, error)  { return s.hi, nil }

func (s *VStore) GetLog(index uint64, log *raft.Log) error {
	l, ok := s.logs[index]
	if !ok {
		return raft.ErrLogNotFound
	}
	*log = *cloneLog(l)
	return nil
}

func (s *VStore) StoreLog(log *raft.Log) error { return s.StoreLogs([]*raft.Log{log}) }

func (s *VStore) StoreLogs(logs []*raft.Log) error {
	s.Ops++
	f := FaultNone
	if s.hooks != nil {
		f = s.hooks.Answer(s.node, fmt.Sprintf("StoreLogs[%d..%d]", logs[0].Index, logs[len(logs)-1].Index), true)
	}
	if f == FaultError {
		return errInjected
	}
	if s.kind != StorePlain {
		// monotonic stores reject non-contiguous appends (as raft-wal does)
		exp := s.hi + 1
		for _, l := range logs {
			if s.hi != 0 || s.lo != 0 {
				if l.Index != exp {
					return fmt.Errorf("non-monotonic log append: expected index %d, got %d", exp, l.Index)
				}
			}
			exp = l.Index + 1
		}
	}
	for _, l := range logs {
		s.logs[l.Index] = cloneLog(l)
		if s.lo == 0 || l.Index < s.lo {
			s.lo = l.Index
		}
		if l.Index > s.hi {
			s.hi = l.Index
		}
	}
	if s.kind == StoreCommitTracking {
		s.commit = s.staged
	}
	if s.hooks != nil {
		s.hooks.OnStoreLogs(s.node, logs)
		if f == FaultCrashAfter {
			s.hooks.CrashNow(s.node)
		}
	}
	return nil
}

func (s *VStore) DeleteRange(min, max uint64) error {
	s.Ops++
	f := FaultNone
	if s.hooks != nil {
		f = s.hooks.Answer(s.node, fmt.Sprintf("DeleteRange[%d..%d]", min, max), true)
	}
	if f == FaultError {
		return errInjected
	}
	var removed []*raft.Log
	for _, i := range s.Indexes() {
		if i >= min && i <= max {
			removed = append(removed, s.logs[i])
			delete(s.logs, i)
		}
	}
	s.lo, s.hi = 0, 0
	for i := range s.logs {
		if s.lo == 0 || i < s.lo {
			s.lo = i
		}
		if i > s.hi {
			s.hi = i
		}
	}
	if s.hooks != nil {
		s.hooks.OnDeleteRange(s.node, min, max, removed)
		if f == FaultCrashAfter {
			s.hooks.CrashNow(s.node)
		}
	}
	return nil
}

func (s *VStore) IsMonotonic() bool { return s.kind != StorePlain }

func (s *VStore) StageCommitIndex(idx uint64) error { s.staged = idx; return nil }
func (s *VStore) GetCommitIndex() (uint64, error) {
	c := s.commit
	if c > s.hi {
		c = s.hi
	}
	return c, nil
}

// onRestart drops volatile state.
func (s *VStore) onRestart() { s.staged = 0 }

func (s *VStore) Set(key []byte, val []byte) error {
	s.Ops++
	f := FaultNone
	if s.hooks != nil {
		f = s.hooks.Answer(s.node, "Set("+string(key)+")", true)
	}
	if f == FaultError {
		return errInjected
	}
	s.kv[string(key)] = append([]byte(nil), val...)
	if s.hooks != nil {
		s.hooks.OnStableSet(s.node, string(key), val)
		if f == FaultCrashAfter {
			s.hooks.CrashNow(s.node)
		}
	}
	return nil
}

func (s *VStore) Get(key []byte) ([]byte, error) {
	v, ok := s.kv[string(key)]
	if !ok {
		return nil, errors.New("not found")
	}
	return append([]byte(nil), v...), nil
}

func (s *VStore) SetUint64(key []byte, val uint64) error {
	s.Ops++
	f := FaultNone
	if s.hooks != nil {
		f = s.hooks.Answer(s.node, fmt.Sprintf("SetUint64(%s,%d)", key, val), true)
	}
	if f == FaultError {
		return errInjected
	}
	s.kvU[string(key)] = val
	if s.hooks != nil {
		s.hooks.OnStableSet(s.node, string(key), []byte(fmt.Sprint(val)))
		if f == FaultCrashAfter {
			s.hooks.CrashNow(s.node)
		}
	}
	return nil
}

func (s *VStore) GetUint64(key []byte) (uint64, error) {
	v, ok := s.kvU[string(key)]
	if !ok {
		return 0, errors.New("not found")
	}
	return v, nil
}

// Indexes returns the sorted indexes held.
func (s *VStore) Indexes() []uint64 {
	out := make([]uint64, 0, len(s.logs))
	for i := range s.logs {
		out = append(out, i)
	}
	sort.Slice(out, func(a, b int) bool { return out[a] < out[b] })
	return out
}

func (s *VStore) Peek(i uint64) *raft.Log { return s.logs[i] }

// plain store variants must not advertise the optional interfaces.
type plainStore struct{ s *VStore }

func (p plainStore) FirstIndex() (uint64, error)        { return p.s.FirstIndex() }
func (p plainStore) LastIndex() (uint64, error)         { return p.s.LastIndex() }
func (p plainStore) GetLog(i uint64, l *raft.Log) error { return p.s.GetLog(i, l) }
func (p plainStore) StoreLog(l *raft.Log) error         { return p.s.StoreLog(l) }
func (p plainStore) StoreLogs(l []*raft.Log) error      { return p.s.StoreLogs(l) }
func (p plainStore) DeleteRange(a, b uint64) error      { return p.s.DeleteRange(a, b) }

type monoStore struct{ plainStore }

func (m monoStore) IsMonotonic() bool { return true }

type ctStore struct{ monoStore }

func (c ctStore) StageCommitIndex(i uint64) error { return c.s.StageCommitIndex(i) }
func (c ctStore) GetCommitIndex() (uint64, error) { return c.s.GetCommitIndex() }

// LogStore returns the view with exactly the optional interfaces of the kind.
func (s *VStore) LogStore() raft.LogStore {
	switch s.kind {
	case StoreMonotonic:
		return monoStore{plainStore{s}}
	case StoreCommitTracking:
		return ctStore{monoStore{plainStore{s}}}
	}
	return plainStore{s}
}

// ---------------------------------------------------------------------------
// VSnap: multi-snapshot store. A snapshot is durable when Close returned.

type snapRec struct {
	meta raft.SnapshotMeta
	data []byte
}

type SnapHooks interface {
	Answer(node int, op string, mayFail bool) Fault
	CrashNow(node int)
	OnSnapshotDurable(node int, meta raft.SnapshotMeta, data []byte)
}

type VSnap struct {
	node   int
	hooks  SnapHooks
	snaps  []*snapRec // durable, creation order
	seq    int
	retain int
}

func NewVSnap(node int, hooks SnapHooks) *VSnap { return &VSnap{node: node, hooks: hooks, retain: 2} }

type vsink struct {
	st     *VSnap
	meta   raft.SnapshotMeta
	buf    bytes.Buffer
	closed bool
}

func (s *VSnap) Create(version raft.SnapshotVersion, index, term uint64, configuration raft.Configuration,
	configurationIndex uint64, trans raft.Transport) (raft.SnapshotSink, error) {
	f := FaultNone
	if s.hooks != nil {
		f = s.hooks.Answer(s.node, fmt.Sprintf("SnapCreate(%d,%d)", index, term), true)
	}
	if f == FaultError {
		return nil, errInjected
	}
	if version != 1 {
		return nil, fmt.Errorf("unsupported snapshot version %d", version)
	}
	s.seq++
	sk := &vsink{st: s, meta: raft.SnapshotMeta{Version: version, ID: fmt.Sprintf("snap-%d-%d-%d", term, index, s.seq), Index: index, Term: term,
		Configuration: configuration.Clone(), ConfigurationIndex: configurationIndex}}
	if f == FaultCrashAfter {
		s.hooks.CrashNow(s.node)
	}
	return sk, nil
}

func (k *vsink) Write(p []byte) (int, error) {
	if k.closed {
		return 0, errors.New("write on closed sink")
	}
	return k.buf.Write(p)
}
func (k *vsink) ID() string { return k.meta.ID }
func (k *vsink) Cancel() error {
	k.closed = true
	return nil
}
func (k *vsink) Close() error {
	if k.closed {
		return nil
	}
	s := k.st
	f := FaultNone
	if s.hooks != nil {
		f = s.hooks.Answer(s.node, "SnapClose("+k.meta.ID+")", true)
	}
	k.closed = true
	if f == FaultError {
		return errInjected
	}
	k.meta.Size = int64(k.buf.Len())
	rec := &snapRec{meta: k.meta, data: append([]byte(nil), k.buf.Bytes()...)}
	s.snaps = append(s.snaps, rec)
	if len(s.snaps) > s.retain {
		s.snaps = s.snaps[len(s.snaps)-s.retain:]
	}
	if s.hooks != nil {
		s.hooks.OnSnapshotDurable(s.node, rec.meta, rec.data)
		if f == FaultCrashAfter {
			s.hooks.CrashNow(s.node)
		}
	}
	return nil
}

func (s *VSnap) List() ([]*raft.SnapshotMeta, error) {
	recs := append([]*snapRec(nil), s.snaps...)
	// newest first: by term, index, then creation order (as FileSnapshotStore sorts)
	sort.SliceStable(recs, func(i, j int) bool {
		a, b := recs[i].meta, recs[j].meta
		if a.Term != b.Term {
			return a.Term > b.Term
		}
		if a.Index != b.Index {
			return a.Index > b.Index
		}
		return a.ID > b.ID
	})
	var out []*raft.SnapshotMeta
	for _, r := range recs {
		m := r.meta
		out = append(out, &m)
	}
	return out, nil
}

func (s *VSnap) Open(id string) (*raft.SnapshotMeta, io.ReadCloser, error) {
	for _, r := range s.snaps {
		if r.meta.ID == id {
			m := r.meta
			return &m, io.NopCloser(bytes.NewReader(r.data)), nil
		}
	}
	return nil, nil, fmt.Errorf("snapshot %s not found", id)
}

// Newest returns the newest durable snapshot (as List orders them) or nil.
func (s *VSnap) Newest() *snapRec {
	l, _ := s.List()
	if len(l) == 0 {
		return nil
	}
	for _, r := range s.snaps {
		if r.meta.ID == l[0].ID {
			return r
		}
	}
	return nil
}

// ---------------------------------------------------------------------------
// NodeStore: what the world and the monitors need from a server's durable log/stable store.

type NodeStore interface {
	raft.StableStore
	LogStore() raft.LogStore
	Peek(i uint64) *raft.Log
	Indexes() []uint64
	Hi() uint64
	U64(key string) uint64
	Bytes(key string) []byte
	onRestart()
	setHooks(h StoreHooks)
}

func (s *VStore) Hi() uint64              { return s.hi }
func (s *VStore) U64(key string) uint64   { return s.kvU[key] }
func (s *VStore) Bytes(key string) []byte { return s.kv[key] }
func (s *VStore) setHooks(h StoreHooks)   { s.hooks = h }

// InmemAdapter puts the library's InmemStore behind the same hooks.
type InmemAdapter struct {
	node  int
	in    *raft.InmemStore
	hooks StoreHooks
}

func NewInmemAdapter(node int) *InmemAdapter {
	return &InmemAdapter{node: node, in: raft.NewInmemStore()}
}

func (a *InmemAdapter) setHooks(h StoreHooks) { a.hooks = h }
func (a *InmemAdapter) onRestart()            {}
func (a *InmemAdapter) LogStore() raft.LogStore {
	return inmemLog{a}
}
func (a *InmemAdapter) Hi() uint64 { h, _ := a.in.LastIndex(); return h }
func (a *InmemAdapter) Peek(i uint64) *raft.Log {
	var l raft.Log
	if err := a.in.GetLog(i, &l); err != nil {
		return nil
	}
	return &l
}
func (a *InmemAdapter) Indexes() []uint64 {
	lo, _ := a.in.FirstIndex()
	hi, _ := a.in.LastIndex()
	var out []uint64
	if hi-lo > 100000 {
		return out // an absurd range is reported by DeleteRange's guard
	}
	for i := lo; i <= hi && i != 0; i++ {
		if a.Peek(i) != nil {
			out = append(out, i)
		}
	}
	return out
}
func (a *InmemAdapter) U64(key string) uint64   { v, _ := a.in.GetUint64([]byte(key)); return v }
func (a *InmemAdapter) Bytes(key string) []byte { v, _ := a.in.Get([]byte(key)); return v }

func (a *InmemAdapter) fault(op string) Fault {
	if a.hooks == nil {
		return FaultNone
	}
	return a.hooks.Answer(a.node, op, true)
}
func (a *InmemAdapter) after(f Fault) {
	if f == FaultCrashAfter && a.hooks != nil {
		a.hooks.CrashNow(a.node)
	}
}
func (a *InmemAdapter) Set(k, v []byte) error {
	f := a.fault("Set(" + string(k) + ")")
	if f == FaultError {
		return errInjected
	}
	err := a.in.Set(k, append([]byte(nil), v...))
	if a.hooks != nil {
		a.hooks.OnStableSet(a.node, string(k), v)
	}
	a.after(f)
	return err
}
func (a *InmemAdapter) Get(k []byte) ([]byte, error) { return a.in.Get(k) }
func (a *InmemAdapter) SetUint64(k []byte, v uint64) error {
	f := a.fault(fmt.Sprintf("SetUint64(%s,%d)", k, v))
	if f == FaultError {
		return errInjected
	}
	err := a.in.SetUint64(k, v)
	if a.hooks != nil {
		a.hooks.OnStableSet(a.node, string(k), []byte(fmt.Sprint(v)))
	}
	a.after(f)
	return err
}
func (a *InmemAdapter) GetUint64(k []byte) (uint64, error) {
	// InmemStore answers 0 for a missing key; raft treats both alike
	return a.in.GetUint64(k)
}

type inmemLog struct{ a *InmemAdapter }

func (l inmemLog) FirstIndex() (uint64, error)          { return l.a.in.FirstIndex() }
func (l inmemLog) LastIndex() (uint64, error)           { return l.a.in.LastIndex() }
func (l inmemLog) GetLog(i uint64, out *raft.Log) error { return l.a.in.GetLog(i, out) }
func (l inmemLog) StoreLog(x *raft.Log) error           { return l.StoreLogs([]*raft.Log{x}) }
func (l inmemLog) StoreLogs(ls []*raft.Log) error {
	a := l.a
	f := a.fault(fmt.Sprintf("StoreLogs[%d..%d]", ls[0].Index, ls[len(ls)-1].Index))
	if f == FaultError {
		return errInjected
	}
	cp := make([]*raft.Log, len(ls))
	for i, x := range ls {
		cp[i] = cloneLog(x)
	}
	err := a.in.StoreLogs(cp)
	if a.hooks != nil {
		a.hooks.OnStoreLogs(a.node, ls)
	}
	a.after(f)
	return err
}
func (l inmemLog) DeleteRange(min, max uint64) error {
	a := l.a
	f := a.fault(fmt.Sprintf("DeleteRange[%d..%d]", min, max))
	if f == FaultError {
		return errInjected
	}
	if max >= min && max-min > 100000 {
		// InmemStore would loop over the whole range
		if a.hooks != nil {
			a.hooks.OnDeleteRange(a.node, min, max, nil)
		}
		return fmt.Errorf("DeleteRange(%d,%d): absurd range refused by the harness", min, max)
	}
	var removed []*raft.Log
	for i := min; i <= max; i++ {
		if x := a.Peek(i); x != nil {
			removed = append(removed, x)
		}
	}
	err := a.in.DeleteRange(min, max)
	if a.hooks != nil {
		a.hooks.OnDeleteRange(a.node, min, max, removed)
	}
	a.after(f)
	return err
}
