package main

import (
	"encoding/json"
	"fmt"

	"github.com/hashicorp/raft"
)

// C11 (1): compaction arithmetic, exhaustive: the real compactLogsWithTrailing on a
// Raft (no goroutines) over a recording store.

type c11case struct {
	First, Last, Snap, Trailing uint64
	Mono                        bool
}

type delRec struct{ min, max uint64 }

type recStore struct {
	*VStore
	dels []delRec
}

func (r *recStore) DeleteRange(a, b uint64) error {
	r.dels = append(r.dels, delRec{a, b})
	return r.VStore.DeleteRange(a, b)
}

func dummyRaft(store raft.LogStore, stable raft.StableStore, snaps raft.SnapshotStore) (*raft.Raft, error) {
	w := &World{}
	n := &Node{id: 0, addr: "n0", sid: "n0"}
	tr := &VTrans{w: w, n: n, cons: make(chan raft.RPC, 4), noNet: true}
	conf := (&World{sc: &Scenario{Nodes: voters(1)}}).baseConfig(0)
	return raft.VerifNewRaftNoStart(conf, &VFSM{}, store, stable, snaps, tr)
}

func runC11(c c11case) string {
	kind := StorePlain
	if c.Mono {
		kind = StoreMonotonic
	}
	vs := NewVStore(0, kind, nil)
	rs := &recStore{VStore: vs}
	r, err := dummyRaft(rs, vs, NewVSnap(0, nil))
	if err != nil {
		return "cannot build Raft: " + err.Error()
	}
	if c.First > 0 {
		for i := c.First; i <= c.Last; i++ {
			vs.logs[i] = &raft.Log{Index: i, Term: 1, Type: raft.LogCommand}
		}
		vs.lo, vs.hi = c.First, c.Last
	}
	if err := r.VerifCompactLogsWithTrailing(c.Snap, c.Last, c.Trailing); err != nil {
		return "unexpected error: " + err.Error()
	}
	// reference: delete exactly [first, min(snap, last-trailing)] when non-empty, nothing otherwise
	var want []delRec
	if c.Last > c.Trailing {
		hi := c.Snap
		if c.Last-c.Trailing < hi {
			hi = c.Last - c.Trailing
		}
		if c.First <= hi {
			want = append(want, delRec{c.First, hi})
		}
	}
	// compare effects (which indexes are gone), not the call shape
	gone := map[uint64]bool{}
	for _, d := range rs.dels {
		for i := d.min; i <= d.max && i <= c.Last+2; i++ {
			gone[i] = true
		}
	}
	for i := c.First; c.First > 0 && i <= c.Last; i++ {
		should := false
		for _, d := range want {
			if i >= d.min && i <= d.max {
				should = true
			}
		}
		if gone[i] != should {
			return fmt.Sprintf("index %d removed=%v, expected removed=%v (calls %v, expected %v)", i, gone[i], should, rs.dels, want)
		}
		if gone[i] && i > c.Snap {
			return fmt.Sprintf("index %d above the snapshot index %d was removed", i, c.Snap)
		}
	}
	// at least Trailing entries remain when that many existed
	if c.First > 0 {
		had := c.Last - c.First + 1
		left := uint64(len(vs.logs))
		min := c.Trailing
		if had < min {
			min = had
		}
		if left < min {
			return fmt.Sprintf("only %d entries left, TrailingLogs=%d and %d existed", left, c.Trailing, had)
		}
	}
	return ""
}

func enumC11(ctx *CheckCtx, shard, of int) *Stats {
	st := newStats()
	if shard != 0 {
		return st
	}
	max := uint64(7)
	if ctx.Tier == "thorough" {
		max = 10
	}
	for _, mono := range []bool{false, true} {
		for first := uint64(0); first <= max-1; first++ {
			for last := first; last <= max; last++ {
				if first == 0 && last != 0 {
					continue
				}
				for snap := uint64(0); snap <= max; snap++ {
					for tr := uint64(0); tr <= max+1; tr++ {
						c := c11case{First: first, Last: last, Snap: snap, Trailing: tr, Mono: mono}
						st.Execs++
						st.Transitions++
						st.Keys[hash64(fmt.Sprint(c))] = true
						if d := runC11(c); d != "" {
							st.Violations = append(st.Violations, FoundViolation{Violation: Violation{Prop: "C11", Sig: "compaction-arithmetic", Msg: fmt.Sprintf("log [%d,%d] snapshot %d trailing %d: %s", first, last, snap, tr, d)}, Scenario: "enum-compaction", Case: c})
							return st
						}
						if len(st.Samples) < 2 && first == 2 && last == 6 && snap == 5 {
							b, _ := json.Marshal(c)
							st.Samples = append(st.Samples, b)
						}
					}
				}
			}
		}
	}
	st.Outcomes["all"]++
	return st
}

func replayC11(m map[string]any) (string, bool) {
	b, _ := json.Marshal(m)
	var c c11case
	if err := json.Unmarshal(b, &c); err != nil {
		return err.Error(), false
	}
	d := runC11(c)
	return d, d != ""
}

func init() { enumReplays["enum-compaction"] = replayC11 }
