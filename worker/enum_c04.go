package main

import (
	"encoding/json"
	"fmt"
	"os"

	"github.com/hashicorp/raft"
)

// C04 (1): the real appendEntries handler on a Raft without goroutines, exhaustively over
// small follower logs x leader logs x request shapes, plus pairs of requests where a storage
// operation of the first one fails.

type c04req struct {
	Leader []uint64 `json:"leader_log_terms"`
	Next   uint64   `json:"next_index"`
	Batch  int      `json:"batch"`
	Commit uint64   `json:"leader_commit"`
	Term   uint64   `json:"term"`
	Fault  string   `json:"fault,omitempty"` // "", "store", "delete": first such storage call fails
}

type c04case struct {
	Follower []uint64 `json:"follower_log_terms"`
	Snap     uint64   `json:"snapshot_index"` // entries <= Snap are compacted away (0 = none)
	Cur      uint64   `json:"current_term"`
	Mono     bool     `json:"monotonic_store"`
	Reqs     []c04req `json:"requests"`
}

func payload(i, t uint64) []byte { return []byte(fmt.Sprintf("e%d.%d", i, t)) }

func termSeqs(maxLen int, maxTerm uint64) [][]uint64 {
	out := [][]uint64{{}}
	var rec func(cur []uint64)
	rec = func(cur []uint64) {
		if len(cur) == maxLen {
			return
		}
		lo := uint64(1)
		if len(cur) > 0 {
			lo = cur[len(cur)-1]
		}
		for t := lo; t <= maxTerm; t++ {
			n := append(append([]uint64{}, cur...), t)
			out = append(out, n)
			rec(n)
		}
	}
	rec(nil)
	return out
}

// logMatching: if two logs have the same term at index i they are identical up to i.
func logMatching(a, b []uint64) bool {
	n := len(a)
	if len(b) < n {
		n = len(b)
	}
	for i := n - 1; i >= 0; i-- {
		if a[i] == b[i] {
			for j := 0; j < i; j++ {
				if a[j] != b[j] {
					return false
				}
			}
			return true
		}
	}
	return true
}

type faultHooks struct {
	failStore, failDelete bool
}

func (h *faultHooks) Answer(node int, op string, mayFail bool) Fault {
	if h.failStore && len(op) > 9 && op[:9] == "StoreLogs" {
		h.failStore = false
		return FaultError
	}
	if h.failDelete && len(op) > 11 && op[:11] == "DeleteRange" {
		h.failDelete = false
		return FaultError
	}
	return FaultNone
}
func (h *faultHooks) CrashNow(node int)                                               {}
func (h *faultHooks) OnStoreLogs(node int, logs []*raft.Log)                          {}
func (h *faultHooks) OnDeleteRange(node int, min, max uint64, removed []*raft.Log)    {}
func (h *faultHooks) OnStableSet(node int, key string, val []byte)                    {}
func (h *faultHooks) OnSnapshotDurable(node int, meta raft.SnapshotMeta, data []byte) {}

func logOf(vs *VStore) map[uint64]uint64 {
	m := map[uint64]uint64{}
	for i, l := range vs.logs {
		m[i] = l.Term
	}
	return m
}

func runC04(c c04case) string {
	_, d := runC04sig(c)
	return d
}

// runC04sig returns a signature suffix and a description ("" = no violation).
func runC04sig(c c04case) (string, string) {
	d := runC04inner(c)
	if d == "" {
		return "", ""
	}
	return c04sig, d
}

var c04sig string

func runC04inner(c c04case) string {
	if debugPrefix {
		b, _ := json.Marshal(c)
		fmt.Fprintln(os.Stderr, "CASE", string(b))
	}
	c04sig = ""
	truncThenStoreFail := false
	kind := StorePlain
	if c.Mono {
		kind = StoreMonotonic
	}
	vs := NewVStore(0, kind, nil)
	snaps := NewVSnap(0, nil)
	for i, t := range c.Follower {
		idx := uint64(i + 1)
		if idx <= c.Snap {
			continue
		}
		vs.logs[idx] = &raft.Log{Index: idx, Term: t, Type: raft.LogCommand, Data: payload(idx, t)}
	}
	vs.recomputeBounds()
	if c.Snap > 0 {
		sk, _ := snaps.Create(1, c.Snap, c.Follower[c.Snap-1], raft.Configuration{}, 0, nil)
		sk.Close()
	}
	vs.kvU["CurrentTerm"] = c.Cur
	r, err := dummyRaft(vs.LogStore(), vs, snaps)
	if err != nil {
		return "cannot build Raft: " + err.Error()
	}
	hooks := &faultHooks{}
	vs.hooks = hooks
	for ri, q := range c.Reqs {
		before := logOf(vs)
		hooks.failStore = q.Fault == "store"
		hooks.failDelete = q.Fault == "delete"
		req := &raft.AppendEntriesRequest{RPCHeader: raft.RPCHeader{ProtocolVersion: 3, ID: []byte("L"), Addr: []byte("L")}, Term: q.Term, LeaderCommitIndex: q.Commit}
		prev := q.Next - 1
		if prev > 0 {
			req.PrevLogEntry = prev
			req.PrevLogTerm = q.Leader[prev-1]
		}
		var sent []uint64
		for i := q.Next; i < q.Next+uint64(q.Batch) && i <= uint64(len(q.Leader)); i++ {
			t := q.Leader[i-1]
			req.Entries = append(req.Entries, &raft.Log{Index: i, Term: t, Type: raft.LogCommand, Data: payload(i, t)})
			sent = append(sent, i)
		}
		curTerm := r.CurrentTerm()
		respI, rerr := r.VerifProcessRPC(req)
		resp, _ := respI.(*raft.AppendEntriesResponse)
		if resp == nil {
			return fmt.Sprintf("request %d: no response (err %v)", ri, rerr)
		}
		after := logOf(vs)
		if q.Fault == "store" && len(after) < len(before) {
			truncThenStoreFail = true // the request truncated a conflicting suffix and then failed to store
		}
		// (a) entries are deleted only from the first index whose term differs from the one sent
		firstConflict := uint64(0)
		for _, i := range sent {
			if t, ok := before[i]; ok && t != q.Leader[i-1] {
				firstConflict = i
				break
			}
		}
		for i, t := range before {
			t2, still := after[i]
			changed := !still || t2 != t
			if !changed {
				continue
			}
			if q.Term < curTerm {
				return fmt.Sprintf("request %d has an older term (%d < %d) but index %d of the log changed", ri, q.Term, curTerm, i)
			}
			if firstConflict == 0 || i < firstConflict {
				return fmt.Sprintf("request %d (prev %d, entries %v of leader log %v): existing entry %d (term %d) was removed or replaced although the first conflicting index is %d (0 = none); follower log before %v after %v", ri, prev, sent, q.Leader, i, t, firstConflict, before, after)
			}
		}
		// (b) success only if the log then equals the leader's through the last entry sent
		if resp.Success {
			if q.Term < curTerm {
				return fmt.Sprintf("request %d with older term %d (current %d) succeeded", ri, q.Term, curTerm)
			}
			if prev > 0 && prev > c.snapAfter(vs, snaps) {
				if t, ok := before[prev]; !ok || t != q.Leader[prev-1] {
					if truncThenStoreFail && !ok {
						c04sig = ":stale-cached-last-log-after-truncation-then-failed-store"
					}
					return fmt.Sprintf("request %d succeeded although the follower does not hold the previous entry %d/term %d (log before %v)", ri, prev, q.Leader[prev-1], before)
				}
			}
			last := prev
			if len(sent) > 0 {
				last = sent[len(sent)-1]
			}
			for i := uint64(1); i <= last; i++ {
				if i <= c.Snap {
					continue
				}
				t, ok := after[i]
				if !ok || t != q.Leader[i-1] {
					return fmt.Sprintf("request %d (prev %d, entries %v of leader log %v) succeeded but the follower log %v differs from the leader's at index %d", ri, prev, sent, q.Leader, after, i)
				}
			}
			// what it reports as its last index must really be there
			if li := r.LastIndex(); li > vs.hi && li > c.Snap {
				if truncThenStoreFail {
					c04sig = ":stale-cached-last-log-after-truncation-then-failed-store"
				}
				return fmt.Sprintf("request %d succeeded and the server reports last index %d but its log ends at %d", ri, li, vs.hi)
			}
		}
		// terms never decrease inside the log
		var pt uint64
		for _, i := range vs.Indexes() {
			if vs.logs[i].Term < pt {
				return fmt.Sprintf("after request %d terms decrease at index %d: %v", ri, i, after)
			}
			pt = vs.logs[i].Term
		}
	}
	return ""
}

func (c c04case) snapAfter(vs *VStore, sn *VSnap) uint64 {
	if s := sn.Newest(); s != nil {
		return s.meta.Index
	}
	return 0
}

func (s *VStore) recomputeBounds() {
	s.lo, s.hi = 0, 0
	for i := range s.logs {
		if s.lo == 0 || i < s.lo {
			s.lo = i
		}
		if i > s.hi {
			s.hi = i
		}
	}
}

func c04requests(leader []uint64, cur uint64, commits []uint64, batches []int) []c04req {
	var out []c04req
	var lt uint64
	if len(leader) > 0 {
		lt = leader[len(leader)-1]
	}
	for next := uint64(1); next <= uint64(len(leader))+1; next++ {
		for _, b := range batches {
			if b > 0 && next > uint64(len(leader)) {
				continue
			}
			for _, cm := range commits {
				for _, t := range []uint64{cur - 1, cur, cur + 1} {
					if t < lt || t == 0 {
						continue // a leader's term is at least the last term of its log
					}
					out = append(out, c04req{Leader: leader, Next: next, Batch: b, Commit: cm, Term: t})
				}
			}
		}
	}
	return out
}

func enumC04(ctx *CheckCtx, shard, of int) *Stats {
	st := newStats()
	fl, ll := 3, 4
	if ctx.Tier == "thorough" {
		fl, ll = 4, 5
	}
	followers := termSeqs(fl, 3)
	leaders := termSeqs(ll, 3)
	n := 0
	fail := func(c c04case, d string) bool {
		v := Violation{Prop: "C04", Sig: "appendentries-handler" + c04sig, Msg: d}
		if ctx.Known != nil && ctx.Known.Matches(v) {
			st.Known[v.Prop+" "+v.Sig]++
			return false
		}
		st.Violations = append(st.Violations, FoundViolation{Violation: v, Scenario: "enum-appendentries", Case: c})
		return true
	}
	for _, f := range followers {
		var flast uint64
		if len(f) > 0 {
			flast = f[len(f)-1]
		}
		for _, mono := range []bool{false, true} {
			for snap := uint64(0); snap <= uint64(len(f)); snap++ {
				for _, cur := range []uint64{flast, 3} {
					if cur == 0 {
						cur = 1
					}
					for _, l := range leaders {
						n++
						if of > 1 && n%of != shard {
							continue
						}
						if !logMatching(f, l) || !coversSnapshot(f, snap, l) {
							continue
						}
						st.Keys[hash64(fmt.Sprint(f, snap, cur, l, mono))] = true
						for _, q := range c04requests(l, cur, []uint64{0, 2, 4}, []int{0, 1, 2}) {
							c := c04case{Follower: f, Snap: snap, Cur: cur, Mono: mono, Reqs: []c04req{q}}
							st.Execs++
							st.Transitions++
							if d := runC04(c); d != "" {
								if fail(c, d) {
									return st
								}
							}
							if len(st.Samples) < 2 && len(f) == 3 && len(l) == 4 && q.Next == 2 && q.Batch == 2 {
								b, _ := json.Marshal(c)
								st.Samples = append(st.Samples, b)
							}
							// pairs: the first request hits a storage failure, then any request of any leader log
							// that is consistent with what the follower durably holds afterwards
							if q.Batch == 0 || q.Commit != 0 || q.Term != cur {
								continue
							}
							for _, flt := range []string{"store", "delete"} {
								q1 := q
								q1.Fault = flt
								for _, l2 := range leaders {
									if len(l2) < 2 {
										continue
									}
									for _, q2 := range c04requests(l2, cur, []uint64{0}, []int{1}) {
										if q2.Term != cur && q2.Term != cur+1 {
											continue
										}
										c2 := c04case{Follower: f, Snap: snap, Cur: cur, Mono: mono, Reqs: []c04req{q1, q2}}
										if !pairConsistent(c2) || !coversSnapshot(f, snap, l2) {
											continue
										}
										st.Execs++
										st.Transitions += 2
										if d := runC04(c2); d != "" {
											if fail(c2, d) {
												return st
											}
										}
									}
								}
							}
						}
					}
				}
			}
		}
	}
	st.Outcomes["all"]++
	return st
}

func faultSig(c c04case) string {
	for _, q := range c.Reqs {
		if q.Fault != "" {
			return ":after-" + q.Fault + "-failure"
		}
	}
	return ""
}

// pairConsistent: the second leader's log must satisfy log matching with the follower's original log
// (both are logs of one Raft history); whether it also matches what is left after the failed first
// request is checked by the handler itself.
func pairConsistent(c c04case) bool {
	a, b := c.Reqs[0], c.Reqs[1]
	if a.Term == b.Term {
		// one leader per term: both requests come from the same (growing) log
		n := len(a.Leader)
		if len(b.Leader) < n {
			return false
		}
		for i := 0; i < n; i++ {
			if a.Leader[i] != b.Leader[i] {
				return false
			}
		}
	}
	if b.Term < a.Term {
		return false
	}
	return logMatching(c.Follower, c.Reqs[1].Leader) && logMatching(c.Reqs[0].Leader, c.Reqs[1].Leader)
}

func replayC04(m map[string]any) (string, bool) {
	b, _ := json.Marshal(m)
	var c c04case
	if err := json.Unmarshal(b, &c); err != nil {
		return err.Error(), false
	}
	d := runC04(c)
	return d, d != ""
}

func init() { enumReplays["enum-appendentries"] = replayC04 }

// coversSnapshot: entries under a snapshot are committed, so every leader's history contains them.
func coversSnapshot(f []uint64, snap uint64, l []uint64) bool {
	if uint64(len(l)) < snap {
		return false
	}
	for i := uint64(0); i < snap; i++ {
		if l[i] != f[i] {
			return false
		}
	}
	return true
}
