package main

import (
	"fmt"
	"time"

	"github.com/hashicorp/raft"
)

// Timed-regime scenarios (C12, C13, C14): timers fire strictly in deadline order, thread steps and message
// delivery take no virtual time. The only decisions left to the explorer are the instants of scripted steps
// (DevStepEarly: "at every quiescent instant before the default one") and the random timeout extras.

const (
	tHeartbeat = 100 * time.Millisecond
	tElection  = 100 * time.Millisecond
	tLease     = 100 * time.Millisecond
)

func whenTime(d time.Duration) func(w *World) bool {
	return func(w *World) bool { return w.now() >= d }
}

func setExtras(w *World, perm []int) {
	for i, p := range perm {
		w.randExtra[i] = int64(time.Duration(p) * 13 * time.Millisecond)
	}
}

func init() {
	// C13: the leader loses its majority at an explorer-chosen instant (default: t = 1s).
	mkLease := func(nonvoterStaysConnected bool, perm []int) func() *Scenario {
		return func() *Scenario {
			ns := voters(3)
			if nonvoterStaysConnected {
				ns = append(voters(2), NodeSpec{Suffrage: raft.Nonvoter, InBootstrap: true, StartUp: true})
			}
			return &Scenario{Nodes: ns, Timed: true, Devs: DevStepEarly, Horizon: 1500,
				Goal: func(w *World) bool {
					return w.vals["probed"] == 1 && w.callsDone() && w.now() > w.tvals["iso"]+600*time.Millisecond
				},
				Steps: []Step{
					stepDo("set-extras", nil, func(w *World) { setExtras(w, perm) }),
					earlyStep("isolate-leader-from-voters", func(w *World) bool { return w.now() >= 1*time.Second && w.stableLeader() != nil }, func(w *World) {
						l := w.leader()
						if l == nil {
							panic("no leader")
						}
						w.vals["old"] = l.id
						w.tvals["iso"] = w.now()
						w.vals["isolated"] = 1
						for _, o := range w.nodes {
							if o.id == l.id {
								continue
							}
							if nonvoterStaysConnected && o.spec.Suffrage == raft.Nonvoter {
								continue // the non-voter stays on the leader's side
							}
							w.blocked[[2]int{l.id, o.id}] = true
							w.blocked[[2]int{o.id, l.id}] = true
						}
						w.mon.leaseIsolated(l, w.now())
					}),
					stepDo("probe-apply-on-old-leader", func(w *World) bool {
						return w.vals["isolated"] == 1 && w.now() >= w.tvals["iso"]+2*tLease+10*time.Millisecond
					}, func(w *World) {
						w.vals["probed"] = 1
						c := w.apply(w.nodes[w.vals["old"]], 0)
						c.Kind = "apply-probe"
					}),
				}}
		}
	}
	regScenario("lease3", mkLease(false, []int{0, 1, 2}))
	regScenario("lease3-b", mkLease(false, []int{2, 0, 1}))
	regScenario("lease2nv", mkLease(true, []int{0, 1, 2}))
	// the isolated leader stays busy: a client keeps submitting commands every 30 ms (well inside the lease), so
	// its main loop never idles; it must still step down on time
	regScenario("lease3-busy", func() *Scenario {
		sc := mkLease(false, []int{0, 1, 2})()
		probe := sc.Steps[2]
		steps := []Step{sc.Steps[0], sc.Steps[1]}
		for k := 1; k <= 9; k++ {
			k := k
			steps = append(steps, stepDo(fmt.Sprintf("busy-apply-%d", k), func(w *World) bool {
				return w.vals["isolated"] == 1 && w.now() >= w.tvals["iso"]+time.Duration(k)*30*time.Millisecond
			}, func(w *World) {
				if o := w.nodes[w.vals["old"]]; o.up && o.r != nil {
					c := w.apply(o, 0)
					c.Kind = "apply-busy"
				}
			}))
		}
		sc.Steps = append(steps, probe)
		return sc
	})
	// as lease2nv, judged for C17: the calls in flight on the stranded leader must resolve
	regScenario("lease2nv-live", func() *Scenario {
		sc := mkLease(true, []int{0, 1, 2})()
		sc.Liveness = true
		sc.Steps = append(sc.Steps[:2:2], stepDo("calls-on-stranded-leader", func(w *World) bool {
			return w.vals["isolated"] == 1 && w.now() >= w.tvals["iso"]+10*time.Millisecond
		}, func(w *World) {
			o := w.nodes[w.vals["old"]]
			w.apply(o, 0)
			w.verify(o)
			w.barrier(o)
		}), sc.Steps[2])
		return sc
	})

	// C13 second half: a fault-free cluster keeps one leader and one term.
	regScenario("quiet3", func() *Scenario {
		return &Scenario{Nodes: voters(3), Timed: true, Devs: DevRand, Horizon: 6000,
			Goal:  func(w *World) bool { return w.now() >= 5*time.Second },
			Steps: []Step{stepDo("set-extras", nil, func(w *World) { setExtras(w, []int{1, 0, 2}) })}}
	})

	// C13, fault-free with a membership change: a single voter adds a second one over a link whose one-way delay
	// (70 ms) is below the lease timeout (100 ms). The new voter is needed for the lease quorum at once; a healthy
	// leader must keep leading in the same term whatever instant the AddVoter arrives at.
	regScenario("quiet-addvoter-slow", func() *Scenario {
		ns := append(voters(1), NodeSpec{Suffrage: raft.Voter, StartUp: true})
		return &Scenario{Nodes: ns, Timed: true, Devs: DevStepEarly, Horizon: 6000,
			Latency: func(w *World, from, to int, kind string) time.Duration {
				if to == 1 {
					return 70 * time.Millisecond
				}
				return 0
			},
			Goal: func(w *World) bool { return w.vals["added"] == 1 && w.now() >= w.tvals["added"]+1500*time.Millisecond },
			Steps: []Step{
				stepDo("set-extras", nil, func(w *World) { setExtras(w, []int{0, 1}) }),
				earlyStep("add-voter", func(w *World) bool { return w.now() >= 1*time.Second && w.stableLeader() != nil }, func(w *World) {
					w.addVoter(w.leader(), 1, 0)
					w.vals["added"] = 1
					w.tvals["added"] = w.now()
				}),
			}}
	})

	// C14: a minority is isolated for a while, then reconnected.
	mkPrevote := func(n int, isolateLeader bool, length time.Duration, mixed bool) func() *Scenario {
		return func() *Scenario {
			ns := voters(n)
			if mixed {
				ns[1].PreVoteDisabled = true // a majority-side member without pre-vote
			}
			return &Scenario{Nodes: ns, Timed: true, Devs: DevStepEarly, Horizon: 6000,
				Goal: func(w *World) bool { return w.vals["healed"] == 1 && w.now() >= w.tvals["heal"]+500*time.Millisecond },
				Steps: []Step{
					stepDo("set-extras", nil, func(w *World) { setExtras(w, []int{0, 2, 1, 4, 3}[:n]) }),
					earlyStep("isolate-minority", func(w *World) bool { return w.now() >= 1*time.Second && w.stableLeader() != nil }, func(w *World) {
						l := w.leader()
						if l == nil {
							panic("no leader")
						}
						var victim *Node
						if isolateLeader {
							victim = l
						} else {
							for _, o := range w.nodes {
								if o != l && o.up && !o.spec.PreVoteDisabled {
									victim = o
								}
							}
						}
						w.vals["victim"] = victim.id
						w.tvals["iso"] = w.now()
						w.vals["isolated"] = 1
						w.isolate(victim.id, true)
						w.mon.prevoteIsolated(victim)
					}),
					stepDo("heal", func(w *World) bool { return w.vals["isolated"] == 1 && w.now() >= w.tvals["iso"]+length }, func(w *World) {
						w.isolate(w.vals["victim"], false)
						w.vals["healed"] = 1
						w.tvals["heal"] = w.now()
						w.mon.prevoteHealed()
					}),
				}}
		}
	}
	// A leadership-transfer target is cut off right after it handled TimeoutNow. Its transfer round (one term, no
	// pre-vote) fails; from then on it must fall back to pre-votes, so its term stays where that round left it.
	// (After the heal the higher term legitimately deposes the leader: only the isolated phase is judged.)
	regScenario("prevote3-transfer", func() *Scenario {
		return &Scenario{Nodes: voters(3), Timed: true, Devs: DevStepEarly, Horizon: 6000,
			Goal: func(w *World) bool { return w.vals["healed"] == 1 && w.now() >= w.tvals["heal"]+300*time.Millisecond },
			Steps: []Step{
				stepDo("set-extras", nil, func(w *World) { setExtras(w, []int{0, 2, 1}) }),
				earlyStep("transfer", func(w *World) bool { return w.now() >= 1*time.Second && w.stableLeader() != nil }, func(w *World) {
					l := w.leader()
					var v *Node
					for _, o := range w.nodes {
						if o != l && o.up {
							v = o
						}
					}
					w.vals["victim"] = v.id
					w.vals["picked"] = 1
					w.transfer(l, v.id)
				}),
				urgent(stepDo("isolate-target-after-timeoutnow", func(w *World) bool {
					if w.vals["picked"] != 1 {
						return false
					}
					for _, m := range w.live {
						if m.Kind == "TN" && m.To == w.vals["victim"] && m.St == mDelivered {
							return true
						}
					}
					return false
				}, func(w *World) {
					v := w.nodes[w.vals["victim"]]
					w.isolate(v.id, true)
					w.tvals["iso"] = w.now()
					w.vals["isolated"] = 1
					w.mon.prevote2 = &prevoteState{node: v.id, inc: v.inc, term: v.r.CurrentTerm(), leader: -1}
				})),
				stepDo("heal", func(w *World) bool { return w.vals["isolated"] == 1 && w.now() >= w.tvals["iso"]+6*tElection }, func(w *World) {
					w.isolate(w.vals["victim"], false)
					w.vals["healed"] = 1
					w.tvals["heal"] = w.now()
					w.mon.prevote2.healed = true
				}),
			}}
	})
	// a demoted voter is isolated: it has no vote, must not campaign, and must not disturb the rest on return
	regScenario("prevote4-demoted", func() *Scenario {
		sc := mkPrevote(4, false, 5*tElection, false)()
		iso := sc.Steps[1]
		sc.Steps = []Step{sc.Steps[0],
			earlyStep("demote-a-follower", func(w *World) bool { return w.now() >= 500*time.Millisecond && w.stableLeader() != nil }, func(w *World) {
				l := w.leader()
				var v *Node
				for _, o := range w.nodes {
					if o != l && o.up {
						v = o
					}
				}
				w.vals["demoted"] = v.id + 1
				w.demote(l, v.id, 0)
			}),
			Step{Name: iso.Name, EarlyWhen: iso.EarlyWhen, When: func(w *World) bool { return w.callsDone() && iso.When(w) }, Do: func(w *World) {
				victim := w.nodes[w.vals["demoted"]-1]
				w.vals["victim"] = victim.id
				w.tvals["iso"] = w.now()
				w.vals["isolated"] = 1
				w.isolate(victim.id, true)
				w.mon.prevoteIsolated(victim)
			}},
			sc.Steps[2]}
		return sc
	})
	// two followers cut off together (they still reach each other)
	regScenario("prevote5-pair", func() *Scenario {
		return &Scenario{Nodes: voters(5), Timed: true, Devs: DevStepEarly, Horizon: 9000,
			Goal: func(w *World) bool { return w.vals["healed"] == 1 && w.now() >= w.tvals["heal"]+500*time.Millisecond },
			Steps: []Step{
				stepDo("set-extras", nil, func(w *World) { setExtras(w, []int{0, 2, 1, 4, 3}) }),
				earlyStep("isolate-pair", func(w *World) bool { return w.now() >= 1*time.Second && w.stableLeader() != nil }, func(w *World) {
					l := w.leader()
					if l == nil {
						panic("no leader")
					}
					var pair []*Node
					for _, o := range w.nodes {
						if o != l && o.up && len(pair) < 2 {
							pair = append(pair, o)
						}
					}
					for _, p := range pair {
						for _, o := range w.nodes {
							if o != pair[0] && o != pair[1] {
								w.cut(p.id, o.id, true)
							}
						}
					}
					w.vals["victim"] = pair[0].id
					w.vals["victim2"] = pair[1].id
					w.tvals["iso"] = w.now()
					w.vals["isolated"] = 1
					w.mon.prevoteIsolated(pair[0])
					w.mon.prevote2 = &prevoteState{node: pair[1].id, inc: pair[1].inc, term: pair[1].r.CurrentTerm(), leader: -1}
				}),
				stepDo("heal", func(w *World) bool { return w.vals["isolated"] == 1 && w.now() >= w.tvals["iso"]+8*tElection }, func(w *World) {
					for k := range w.blocked {
						delete(w.blocked, k)
					}
					w.vals["healed"] = 1
					w.tvals["heal"] = w.now()
					w.mon.prevoteHealed()
					if w.mon.prevote2 != nil {
						w.mon.prevote2.healed = true
					}
				}),
			}}
	})
	regScenario("prevote3-1", mkPrevote(3, false, 1*tElection+50*time.Millisecond, false))
	regScenario("prevote3-5", mkPrevote(3, false, 5*tElection, false))
	regScenario("prevote3-20", mkPrevote(3, false, 20*tElection, false))
	regScenario("prevote3-leader", mkPrevote(3, true, 5*tElection, false))
	regScenario("prevote5-5", mkPrevote(5, false, 5*tElection, false))
	regScenario("prevote3-mixed", mkPrevote(3, false, 5*tElection, true))
}

// ---------------------------------------------------------------------------
// monitors for the timed properties

type leaseState struct {
	node, inc int
	at        time.Duration
	steppedAt time.Duration
	stepped   bool
}

type prevoteState struct {
	node, inc  int
	term       uint64
	leader     int
	leaderTerm uint64
	healed     bool
	healAt     time.Duration
}

func (m *Monitors) leaseIsolated(l *Node, at time.Duration) {
	m.lease = &leaseState{node: l.id, inc: l.inc, at: at}
}

func (m *Monitors) prevoteIsolated(v *Node) {
	ps := &prevoteState{node: v.id, inc: v.inc, term: v.r.CurrentTerm(), leader: -1}
	// the healthy side's leader after isolation is looked up at heal time
	m.prevote = ps
}

func (m *Monitors) prevoteHealed() {
	if m.prevote == nil {
		return
	}
	ps := m.prevote
	ps.healed = true
	ps.healAt = m.w.now()
	// leader of the healthy side right before reconnecting
	for _, n := range m.w.nodes {
		if n.id != ps.node && n.up && n.r != nil && n.r.State() == raft.Leader {
			ps.leader = n.id
			ps.leaderTerm = n.r.CurrentTerm()
		}
	}
}

// timedChecks runs at every quiescent point.
func (m *Monitors) timedChecks() {
	w := m.w
	if ls := m.lease; ls != nil {
		n := w.nodes[ls.node]
		if n.up && n.inc == ls.inc && n.r != nil {
			isLeader := n.r.State() == raft.Leader
			if !isLeader && !ls.stepped {
				ls.stepped = true
				ls.steppedAt = w.now()
			}
			if isLeader && w.now() > ls.at+2*tLease {
				m.fail("C13", "isolated-leader-keeps-leading", "n%d lost its majority at %v and still reports Leader at %v (LeaderLeaseTimeout %v)", ls.node, ls.at, w.now(), tLease)
			}
		}
	}
	for _, ps := range []*prevoteState{m.prevote, m.prevote2} {
		if ps == nil {
			continue
		}
		n := w.nodes[ps.node]
		if n.up && n.inc == ps.inc && n.r != nil {
			if !ps.healed {
				if t := n.r.CurrentTerm(); t != ps.term {
					m.fail("C14", "isolated-server-term-grew", "isolated n%d (pre-vote on) went from term %d to %d without reaching a majority", ps.node, ps.term, t)
					ps.term = t
				}
			}
		}
	}
}

// timedEnd runs once at the end of a timed execution.
func (m *Monitors) timedEnd() {
	w := m.w
	if ls := m.lease; ls != nil {
		for _, c := range w.calls {
			if c.Kind == "apply-probe" && c.Done && c.Err == nil {
				m.fail("C13", "isolated-leader-accepts-write", "write issued on n%d at %v, more than 2 x LeaderLeaseTimeout after it lost its majority at %v, succeeded", ls.node, c.InvokeNow, ls.at)
			}
			if c.Kind == "apply-probe" && c.Done && c.Err != nil && c.Err != raft.ErrNotLeader && c.Err != raft.ErrLeadershipLost && c.Err != errCrashed {
				m.fail("C13", "isolated-leader-wrong-error", "write on deposed n%d failed with %v", ls.node, c.Err)
			}
		}
	}
	if ps := m.prevote; ps != nil && ps.healed && ps.leader >= 0 {
		ld := w.nodes[ps.leader]
		if w.vals["victim"] != ps.leader {
			if !ld.up || ld.r == nil || ld.r.State() != raft.Leader || ld.r.CurrentTerm() != ps.leaderTerm {
				st, tm := "down", uint64(0)
				if ld.r != nil {
					st, tm = ld.r.State().String(), ld.r.CurrentTerm()
				}
				m.fail("C14", "reconnect-disrupted-leader", "n%d was leader of term %d when n%d reconnected at %v; at %v it is %s in term %d", ps.leader, ps.leaderTerm, ps.node, ps.healAt, w.now(), st, tm)
			}
			v := w.nodes[ps.node]
			if v.up && v.r != nil && w.now() >= ps.healAt+2*tHeartbeat+50*time.Millisecond {
				if v.r.State() != raft.Follower {
					m.fail("C14", "reconnected-server-not-follower", "n%d reconnected at %v and is %s at %v", ps.node, ps.healAt, v.r.State(), w.now())
				}
			}
		}
	}
	if w.sc.Name == "quiet3" || w.sc.Name == "quiet-addvoter-slow" {
		if len(m.leaders) != 1 {
			m.fail("C13", "healthy-leader-deposed", "fault-free run of %v saw leaders in %d terms: %v", w.now(), len(m.leaders), fmt.Sprint(m.leaders))
		}
	}
}

// earlyStep: a step whose default instant is given by when; with DevStepEarly it is also tried at every
// earlier quiescent point at which a stable leader exists.
func earlyStep(name string, when func(w *World) bool, do func(w *World)) Step {
	return Step{Name: name, When: when, Do: do, EarlyWhen: func(w *World) bool { return w.stableLeader() != nil }}
}
