package main

import (
	"bytes"
	"encoding/json"
	"errors"
	"fmt"
	"io"
	"net"
	"os"
	"reflect"
	"strings"
	"time"

	"github.com/hashicorp/go-hclog"
	"github.com/hashicorp/raft"
	"github.com/hashicorp/raft/zzverif/vsched"
	"github.com/hashicorp/raft/zzverif/vtime"
)

// ---------------------------------------------------------------------------
// C16: the real NetworkTransport (it is part of the instrumented package) over virtual
// connections whose blocking, deadlines and faults belong to the scheduler/harness.

type vaddr string

func (a vaddr) Network() string { return "vnet" }
func (a vaddr) String() string  { return string(a) }

type timeoutErr struct{}

func (timeoutErr) Error() string   { return "i/o timeout" }
func (timeoutErr) Timeout() bool   { return true }
func (timeoutErr) Temporary() bool { return true }

// halfPipe carries bytes in one direction.
type halfPipe struct {
	buf      []byte
	closed   bool // writer closed
	broken   bool // cut by a fault
	passed   int  // bytes that went through so far
	cutAfter int  // -1: no fault; otherwise the connection breaks once this many bytes passed
}

type vconn struct {
	net        *vnetwork
	in, out    *halfPipe
	local, rem vaddr
	rdl, wdl   time.Duration // deadlines in virtual time (0 = none)
	closed     bool
	id         int
}

func (c *vconn) Read(p []byte) (int, error) {
	if c.closed {
		return 0, net.ErrClosed
	}
	expired := func() bool { return c.rdl > 0 && vtime.Elapsed() >= c.rdl }
	vsched.WaitAlways("conn-read", func() bool { return len(c.in.buf) > 0 || c.in.closed || c.in.broken || c.closed || expired() })
	if len(c.in.buf) > 0 {
		n := copy(p, c.in.buf)
		c.in.buf = c.in.buf[n:]
		return n, nil
	}
	if c.closed {
		return 0, net.ErrClosed
	}
	if c.in.broken {
		return 0, errors.New("connection reset by peer")
	}
	if c.in.closed {
		return 0, io.EOF
	}
	return 0, timeoutErr{}
}

func (c *vconn) Write(p []byte) (int, error) {
	if c.closed {
		return 0, net.ErrClosed
	}
	if c.out.broken || c.out.closed {
		return 0, errors.New("broken pipe")
	}
	if c.wdl > 0 && vtime.Elapsed() >= c.wdl {
		return 0, timeoutErr{}
	}
	c.net.bytes[c.id] += len(p)
	if c.out.cutAfter >= 0 && c.out.passed+len(p) > c.out.cutAfter {
		k := c.out.cutAfter - c.out.passed
		c.out.buf = append(c.out.buf, p[:k]...)
		c.out.passed += k
		c.out.broken = true
		// the peer's other direction dies with it
		return k, errors.New("connection reset by peer")
	}
	c.out.buf = append(c.out.buf, p...)
	c.out.passed += len(p)
	return len(p), nil
}

func (c *vconn) Close() error {
	if c.closed {
		return nil
	}
	c.closed = true
	c.out.closed = true
	c.in.closed = true
	return nil
}
func (c *vconn) LocalAddr() net.Addr  { return c.local }
func (c *vconn) RemoteAddr() net.Addr { return c.rem }
func (c *vconn) deadline(t time.Time) time.Duration {
	if t.IsZero() {
		return 0
	}
	d := t.Sub(vtime.Now()) + vtime.Elapsed()
	if d <= 0 {
		d = 1
	}
	// a timer whose firing moves the virtual clock past the deadline
	vtime.AfterFunc(d-vtime.Elapsed(), func() {})
	return d
}
func (c *vconn) SetDeadline(t time.Time) error      { c.rdl = c.deadline(t); c.wdl = c.rdl; return nil }
func (c *vconn) SetReadDeadline(t time.Time) error  { c.rdl = c.deadline(t); return nil }
func (c *vconn) SetWriteDeadline(t time.Time) error { c.wdl = c.deadline(t); return nil }

type vlistener struct {
	net     *vnetwork
	addr    vaddr
	backlog []*vconn
	closed  bool
}

func (l *vlistener) Accept() (net.Conn, error) {
	vsched.WaitAlways("accept", func() bool { return len(l.backlog) > 0 || l.closed })
	if len(l.backlog) > 0 {
		c := l.backlog[0]
		l.backlog = l.backlog[1:]
		return c, nil
	}
	return nil, net.ErrClosed
}
func (l *vlistener) Close() error   { l.closed = true; return nil }
func (l *vlistener) Addr() net.Addr { return l.addr }
func (l *vlistener) Dial(address raft.ServerAddress, timeout time.Duration) (net.Conn, error) {
	t := l.net.listeners[vaddr(address)]
	if t == nil || t.closed {
		return nil, errors.New("connection refused")
	}
	a, b := &halfPipe{cutAfter: -1}, &halfPipe{cutAfter: -1}
	l.net.nconn++
	id := l.net.nconn
	if f := l.net.fault; f != nil && f.conn == id {
		if f.request {
			a.cutAfter = f.offset
		} else {
			b.cutAfter = f.offset
		}
	}
	cl := &vconn{net: l.net, in: b, out: a, local: l.addr, rem: vaddr(address), id: id}
	sv := &vconn{net: l.net, in: a, out: b, local: vaddr(address), rem: l.addr, id: -id}
	l.net.conns = append(l.net.conns, cl)
	t.backlog = append(t.backlog, sv)
	return cl, nil
}

type connFault struct {
	conn    int  // n-th dialled connection (1-based)
	request bool // cut the client->server direction (else server->client)
	offset  int
}

type vnetwork struct {
	listeners map[vaddr]*vlistener
	nconn     int
	conns     []*vconn
	fault     *connFault
	bytes     map[int]int // per connection end: bytes written
}

func newVnet() *vnetwork { return &vnetwork{listeners: map[vaddr]*vlistener{}, bytes: map[int]int{}} }
func (n *vnetwork) listen(a string) *vlistener {
	l := &vlistener{net: n, addr: vaddr(a)}
	n.listeners[vaddr(a)] = l
	return l
}

// ---------------------------------------------------------------------------

type c16strat struct {
	env func() []vsched.EnvT
	rec *Recorder
}

func (c16strat) Coarse() bool { return true }
func (s *c16strat) Choose(sc *vsched.Sched, opts []vsched.Transition, nThread, cur int) int {
	if nThread > 0 {
		b := 0
		if cur >= 0 {
			b = cur
		}
		if sc.SelectBranch {
			// Go picks at random among the ready cases of a select (e.g. the pipeline's decoder: next queued future
			// vs. shutdown): every ready case of the select the scheduled thread sits in is explored
			idx := []int{b}
			for j := 0; j < nThread; j++ {
				if j != b && opts[j].T == opts[b].T {
					idx = append(idx, j)
				}
			}
			if len(idx) > 1 {
				labels := make([]string, len(idx))
				costs := make([]int, len(idx))
				for i, j := range idx {
					labels[i] = "select " + opts[j].String()
					if i > 0 {
						costs[i] = 1
					}
				}
				return idx[s.rec.choose(labels, costs)]
			}
		}
		return b
	}
	if len(opts) == 0 {
		return -1
	}
	labels := make([]string, len(opts))
	costs := make([]int, len(opts))
	for i, o := range opts {
		labels[i] = o.Env.Key
		costs[i] = o.Env.Cost
	}
	return s.rec.choose(labels, costs)
}

// c16SelectBranch: ready-case choices of selects are explored too (pipeline-close cases)
var c16SelectBranch bool

// c16TimeFmt selects the msgpack time format of the two transports of the next world (see runC16).
var c16TimeFmt int

type c16rpc struct {
	Cmd  interface{}
	Body []byte
}

type c16world struct {
	net       *vnetwork
	a, b      *raft.NetworkTransport
	received  []c16rpc
	pending   []raft.RPC                                        // received, not yet answered
	respond   func(i int, cmd interface{}) (interface{}, error) // response for the i-th received request
	autoReply bool                                              // answer as soon as received (else the environment grants each answer)
	noReply   bool
	done      bool
	fail      string
	// pipeline-stall: the reader of the pipeline's Consumer channel takes a future only when the environment lets it
	stall      bool
	wantClose  bool // pipeline-close: the client waits for the environment before closing the pipeline
	closeNow   bool
	wantPermit bool
	permits    int
	timerFired bool
}

// runC16 runs body as the client thread of a fresh two-transport world and returns the recorder.
func runC16(prefix []int, maxInFlight int, timeout time.Duration, fault *connFault, autoReply bool,
	respond func(i int, cmd interface{}) (interface{}, error), body func(w *c16world)) (*c16world, *Recorder, string) {
	w := &c16world{net: newVnet(), respond: respond, autoReply: autoReply}
	w.net.fault = fault
	st := &c16strat{rec: &Recorder{prefix: prefix}}
	s := vsched.New(st)
	s.SelectBranch = c16SelectBranch
	vtime.Reset()
	panicMsg := ""
	s.OnPanic = func(t *vsched.Thread, v any, stack string) {
		if ie, ok := v.(internalError); ok {
			panicMsg = "internal: " + ie.msg
			return
		}
		panicMsg = fmt.Sprintf("panic in %s: %v\n%s", t.Name, v, stack)
	}
	s.EnvFn = func(nThread int) []vsched.EnvT {
		if nThread > 0 || w.done {
			return nil
		}
		var out []vsched.EnvT
		if !w.autoReply && !w.noReply && len(w.pending) > 0 {
			out = append(out, vsched.EnvT{Key: fmt.Sprintf("answer request %d", len(w.received)-len(w.pending)), Do: func() { w.answerNext() }})
		}
		if w.wantClose && !w.closeNow {
			out = append(out, vsched.EnvT{Key: "client closes the pipeline", Do: func() { w.closeNow = true }})
		}
		if w.stall && w.wantPermit && w.permits == 0 {
			out = append(out, vsched.EnvT{Key: "consumer takes a future", Do: func() { w.permits++ }})
		}
		for _, tm := range vtime.Pending() {
			tm := tm
			out = append(out, vsched.EnvT{Key: fmt.Sprintf("timer +%v", tm.Deadline), Cost: 1, Do: func() { w.timerFired = true; vtime.Fire(tm) }})
			break
		}
		return out
	}
	s.Run(func() {
		mk := func(addr string) *raft.NetworkTransport {
			// c16TimeFmt bit 0: transport A encodes times in the new msgpack format; bit 1: transport B does
			newFmt := (addr == "A" && c16TimeFmt&1 != 0) || (addr == "B" && c16TimeFmt&2 != 0)
			return raft.NewNetworkTransportWithConfig(&raft.NetworkTransportConfig{Stream: w.net.listen(addr), MaxPool: 2, Timeout: timeout,
				Logger: hclog.NewNullLogger(), MaxRPCsInFlight: maxInFlight, MsgpackUseNewTimeFormat: newFmt})
		}
		w.a, w.b = mk("A"), mk("B")
		vsched.GoNamed("consumer", 7, func() {
			ch := w.b.Consumer()
			for {
				rpc := vsched.Recv[raft.RPC]("consume", ch)
				rec := c16rpc{Cmd: rpc.Command}
				if rpc.Reader != nil {
					rec.Body, _ = io.ReadAll(rpc.Reader)
				}
				w.received = append(w.received, rec)
				w.pending = append(w.pending, rpc)
				if w.autoReply && !w.noReply {
					w.answerNext()
				}
			}
		})
		vsched.GoNamed("client", 8, func() {
			body(w)
			w.done = true
		})
	})
	s.Kill()
	return w, st.rec, panicMsg
}

func (w *c16world) answerNext() {
	rpc := w.pending[0]
	w.pending = w.pending[1:]
	i := len(w.received) - len(w.pending) - 1
	resp, err := w.respond(i, rpc.Command)
	select {
	case rpc.RespChan <- raft.RPCResponse{Response: resp, Error: err}:
	default:
	}
}

// ---------------------------------------------------------------------------
// message variants

func hdrs() []raft.RPCHeader {
	return []raft.RPCHeader{
		{ProtocolVersion: 3, ID: []byte("idA"), Addr: []byte("A")},
		{ProtocolVersion: 2},
		{ProtocolVersion: 3, ID: []byte{}, Addr: nil},
	}
}

func logVariants() [][]*raft.Log {
	t0 := time.Unix(1_700_000_123, 456000000).UTC()
	all := []*raft.Log{}
	for ty := raft.LogCommand; ty <= raft.LogConfiguration; ty++ {
		all = append(all, &raft.Log{Index: uint64(ty) + 1, Term: 3, Type: ty, Data: []byte{byte(ty), 0, 255}, Extensions: []byte("ext"), AppendedAt: t0})
	}
	big := bytes.Repeat([]byte{0xab}, 70000)
	return [][]*raft.Log{
		nil,
		{},
		{{Index: 1, Term: 1, Type: raft.LogCommand, Data: nil}},
		{{Index: 1, Term: 1, Type: raft.LogCommand, Data: []byte{}}, {Index: 2, Term: ^uint64(0), Type: raft.LogNoop, Data: []byte("x")}},
		all,
		{{Index: ^uint64(0), Term: 0, Type: raft.LogCommand, Data: big, AppendedAt: t0}},
	}
}

func normalise(v reflect.Value) {
	switch v.Kind() {
	case reflect.Ptr, reflect.Interface:
		if !v.IsNil() {
			normalise(v.Elem())
		}
	case reflect.Struct:
		if t, ok := v.Interface().(time.Time); ok {
			if v.CanSet() {
				v.Set(reflect.ValueOf(t.UTC().Round(0)))
			}
			return
		}
		for i := 0; i < v.NumField(); i++ {
			if v.Field(i).CanSet() || v.Field(i).Kind() == reflect.Struct || v.Field(i).Kind() == reflect.Ptr || v.Field(i).Kind() == reflect.Slice {
				normalise(v.Field(i))
			}
		}
	case reflect.Slice:
		if v.Len() == 0 && !v.IsNil() && v.CanSet() {
			v.Set(reflect.Zero(v.Type())) // msgpack does not distinguish empty from nil
			return
		}
		for i := 0; i < v.Len(); i++ {
			normalise(v.Index(i))
		}
	}
}

func sameMsg(a, b interface{}) bool {
	ja, jb := deepCopyJSON(a), deepCopyJSON(b)
	return ja == jb
}

// deepCopyJSON renders a message canonically (nil and empty slices alike, times in UTC).
func deepCopyJSON(v interface{}) string {
	b, _ := json.Marshal(v)
	s := string(b)
	s = strings.ReplaceAll(s, `""`, `null`)
	s = strings.ReplaceAll(s, `[]`, `null`)
	return s
}

type c16call struct {
	name string
	do   func(t *raft.NetworkTransport) (sent interface{}, got interface{}, body []byte, err error)
	resp interface{} // what the handler answers
	rerr error
}

func c16calls() []c16call {
	var out []c16call
	for hi, h := range hdrs() {
		for li, logs := range logVariants() {
			h, logs := h, logs
			req := &raft.AppendEntriesRequest{RPCHeader: h, Term: uint64(li) * 7, Leader: []byte("ld"), PrevLogEntry: uint64(hi), PrevLogTerm: ^uint64(0) >> uint(li), Entries: logs, LeaderCommitIndex: uint64(li)}
			if li == 1 {
				req.Leader = nil
			}
			resp := &raft.AppendEntriesResponse{RPCHeader: h, Term: uint64(li) + 1, LastLog: uint64(hi) * 100, Success: li%2 == 0, NoRetryBackoff: li%3 == 0}
			out = append(out, c16call{name: fmt.Sprintf("AppendEntries h%d l%d", hi, li), resp: resp, do: func(t *raft.NetworkTransport) (interface{}, interface{}, []byte, error) {
				var r raft.AppendEntriesResponse
				err := t.AppendEntries("idB", "B", req, &r)
				return req, &r, nil, err
			}})
		}
		h := h
		rv := &raft.RequestVoteRequest{RPCHeader: h, Term: 9, Candidate: []byte("cand"), LastLogIndex: 77, LastLogTerm: 8, LeadershipTransfer: hi%2 == 0}
		out = append(out, c16call{name: fmt.Sprintf("RequestVote h%d", hi), resp: &raft.RequestVoteResponse{RPCHeader: h, Term: 9, Peers: []byte("p"), Granted: hi%2 == 1}, do: func(t *raft.NetworkTransport) (interface{}, interface{}, []byte, error) {
			var r raft.RequestVoteResponse
			err := t.RequestVote("idB", "B", rv, &r)
			return rv, &r, nil, err
		}})
		pv := &raft.RequestPreVoteRequest{RPCHeader: h, Term: 10, LastLogIndex: 0, LastLogTerm: ^uint64(0)}
		out = append(out, c16call{name: fmt.Sprintf("RequestPreVote h%d", hi), resp: &raft.RequestPreVoteResponse{RPCHeader: h, Term: 10, Granted: hi%2 == 0}, do: func(t *raft.NetworkTransport) (interface{}, interface{}, []byte, error) {
			var r raft.RequestPreVoteResponse
			err := t.RequestPreVote("idB", "B", pv, &r)
			return pv, &r, nil, err
		}})
		tn := &raft.TimeoutNowRequest{RPCHeader: h}
		out = append(out, c16call{name: fmt.Sprintf("TimeoutNow h%d", hi), resp: &raft.TimeoutNowResponse{RPCHeader: h}, do: func(t *raft.NetworkTransport) (interface{}, interface{}, []byte, error) {
			var r raft.TimeoutNowResponse
			err := t.TimeoutNow("idB", "B", tn, &r)
			return tn, &r, nil, err
		}})
		for _, size := range []int{0, 1, 4095, 4096, 4097, 300000} {
			size := size
			body := snapData(size%97, size)
			is := &raft.InstallSnapshotRequest{RPCHeader: h, SnapshotVersion: 1, Term: 4, Leader: []byte("ld"), LastLogIndex: 55, LastLogTerm: 3, Peers: []byte("peers"),
				Configuration: []byte("cfg"), ConfigurationIndex: 2, Size: int64(size)}
			out = append(out, c16call{name: fmt.Sprintf("InstallSnapshot h%d size %d", hi, size), resp: &raft.InstallSnapshotResponse{RPCHeader: h, Term: 4, Success: size%2 == 0}, do: func(t *raft.NetworkTransport) (interface{}, interface{}, []byte, error) {
				var r raft.InstallSnapshotResponse
				err := t.InstallSnapshot("idB", "B", is, &r, bytes.NewReader(body))
				return is, &r, body, err
			}})
		}
	}
	// a handler error travels back as text
	h := hdrs()[0]
	req := &raft.AppendEntriesRequest{RPCHeader: h, Term: 1}
	out = append(out, c16call{name: "AppendEntries handler error", resp: &raft.AppendEntriesResponse{RPCHeader: h, Term: 5}, rerr: errors.New("handler says no"), do: func(t *raft.NetworkTransport) (interface{}, interface{}, []byte, error) {
		var r raft.AppendEntriesResponse
		err := t.AppendEntries("idB", "B", req, &r)
		return req, &r, nil, err
	}})
	return out
}

// checkCall compares what the handler saw and what the caller got with what was sent / answered.
func checkCall(name string, sent, got interface{}, body []byte, err error, rec *c16rpc, c c16call) string {
	if rec == nil {
		return name + ": the handler never received the request"
	}
	if !sameMsg(sent, rec.Cmd) {
		return fmt.Sprintf("%s: handler received %s, sent %s", name, trunc(deepCopyJSON(rec.Cmd)), trunc(deepCopyJSON(sent)))
	}
	if body != nil && !bytes.Equal(body, rec.Body) {
		return fmt.Sprintf("%s: handler received a snapshot body of %d bytes that differs from the %d bytes sent", name, len(rec.Body), len(body))
	}
	if c.rerr != nil {
		if err == nil || err.Error() != c.rerr.Error() {
			return fmt.Sprintf("%s: handler error %q arrived as %v", name, c.rerr, err)
		}
		return ""
	}
	if err != nil {
		return fmt.Sprintf("%s: unexpected error %v", name, err)
	}
	if !sameMsg(c.resp, got) {
		return fmt.Sprintf("%s: caller got %s, handler answered %s", name, trunc(deepCopyJSON(got)), trunc(deepCopyJSON(c.resp)))
	}
	return ""
}

func trunc(s string) string {
	if len(s) > 300 {
		return s[:300] + "..."
	}
	return s
}

// ---------------------------------------------------------------------------

type c16case struct {
	Kind     string `json:"kind"` // fidelity | cut | pipeline | pipeline-stall | timeout
	Call     int    `json:"call,omitempty"`
	Request  bool   `json:"cut_request,omitempty"`
	Offset   int    `json:"cut_offset,omitempty"`
	Depth    int    `json:"depth,omitempty"`
	InFlight int    `json:"max_in_flight,omitempty"`
	Prefix   []int  `json:"schedule,omitempty"`
	TimeFmt  int    `json:"time_format,omitempty"` // bit 0: sender uses the new msgpack time format, bit 1: receiver does
}

func runC16case(c c16case) (string, *Recorder) {
	c16TimeFmt = c.TimeFmt
	defer func() { c16TimeFmt = 0 }()
	calls := c16calls()
	switch c.Kind {
	case "fidelity":
		// three consecutive calls reuse the pooled connection
		var fail string
		idx := []int{c.Call, (c.Call + 5) % len(calls), c.Call}
		respond := func(i int, cmd interface{}) (interface{}, error) { return calls[idx[i%3]].resp, calls[idx[i%3]].rerr }
		w, rec, pm := runC16(c.Prefix, 2, time.Second, nil, true, respond, func(w *c16world) {
			for k, ci := range idx {
				sent, got, body, err := calls[ci].do(w.a)
				var r *c16rpc
				if k < len(w.received) {
					r = &w.received[k]
				}
				if d := checkCall(calls[ci].name, sent, got, body, err, r, calls[ci]); d != "" && fail == "" {
					fail = fmt.Sprintf("call %d of the sequence: %s", k, d)
				}
			}
		})
		if pm != "" {
			return pm, rec
		}
		if !w.done && fail == "" {
			fail = "client blocked for ever"
		}
		return fail, rec
	case "cut":
		cl := calls[c.Call]
		var fail string
		respond := func(i int, cmd interface{}) (interface{}, error) { return cl.resp, nil }
		w, rec, pm := runC16(c.Prefix, 2, time.Second, &connFault{conn: 1, request: c.Request, offset: c.Offset}, true, respond, func(w *c16world) {
			_, got, _, err := cl.do(w.a)
			if err == nil {
				// the exchange may have completed before the cut mattered; then it must be right
				if !sameMsg(cl.resp, got) {
					fail = fmt.Sprintf("%s with the connection cut after byte %d (request=%v) returned no error and a wrong response %s", cl.name, c.Offset, c.Request, trunc(deepCopyJSON(got)))
				}
			}
			// the next call must be served correctly (no stale bytes, no stale connection)
			n0 := len(w.received)
			sent, got2, body, err2 := cl.do(w.a)
			var r *c16rpc
			if len(w.received) > n0 {
				r = &w.received[len(w.received)-1]
			}
			if d := checkCall(cl.name+" (after the cut exchange)", sent, got2, body, err2, r, cl); d != "" && fail == "" {
				fail = d
			}
		})
		if pm != "" {
			return pm, rec
		}
		if !w.done && fail == "" {
			fail = "client blocked for ever after a cut connection"
		}
		return fail, rec
	case "timeout":
		cl := calls[c.Call]
		var fail string
		respond := func(i int, cmd interface{}) (interface{}, error) { return cl.resp, nil }
		w, rec, pm := runC16(c.Prefix, 2, 500*time.Millisecond, nil, true, respond, func(w *c16world) {
			w.noReply = true
			_, _, _, err := cl.do(w.a)
			if err == nil {
				fail = cl.name + ": the handler never answered but the call returned no error"
			}
			w.noReply = false
			w.pending = nil
			n0 := len(w.received)
			sent, got2, body, err2 := cl.do(w.a)
			var r *c16rpc
			if len(w.received) > n0 {
				r = &w.received[len(w.received)-1]
			}
			if d := checkCall(cl.name+" (after a timed-out exchange)", sent, got2, body, err2, r, cl); d != "" && fail == "" {
				fail = d
			}
		})
		if pm != "" {
			return pm, rec
		}
		if !w.done && fail == "" {
			fail = "client blocked for ever after a timeout"
		}
		return fail, rec
	case "pipeline":
		var fail string
		h := hdrs()[0]
		respond := func(i int, cmd interface{}) (interface{}, error) {
			a := cmd.(*raft.AppendEntriesRequest)
			return &raft.AppendEntriesResponse{RPCHeader: h, Term: a.Term, LastLog: a.PrevLogEntry + 1000, Success: true}, nil
		}
		w, rec, pm := runC16(c.Prefix, c.InFlight, time.Second, nil, false, respond, func(w *c16world) {
			p, err := w.a.AppendEntriesPipeline("idB", "B")
			if err != nil {
				fail = "cannot open a pipeline: " + err.Error()
				return
			}
			var futs []raft.AppendFuture
			consumed := false
			ch := p.Consumer()
			// as raft does, futures are consumed by a thread of their own while the sender keeps sending
			vsched.GoNamed("pipe-consumer", 9, func() {
				defer func() { consumed = true }()
				for i := 0; i < c.Depth; i++ {
					f := vsched.Recv[raft.AppendFuture]("pipe-consume", ch)
					if i >= len(futs) || f != futs[i] {
						fail = fmt.Sprintf("pipeline delivered a future out of send order at position %d", i)
						return
					}
					if err := f.Error(); err != nil {
						timedOut := false
						for _, x := range c.Prefix {
							if x != 0 {
								timedOut = true // the schedule let a deadline pass before the answer
							}
						}
						if !timedOut {
							fail = fmt.Sprintf("pipeline future %d failed: %v", i, err)
						}
						return
					}
					if f.Request().PrevLogEntry != uint64(i+1) || f.Response().LastLog != uint64(i+1)+1000 {
						fail = fmt.Sprintf("pipeline future %d pairs request prev=%d with response LastLog=%d", i, f.Request().PrevLogEntry, f.Response().LastLog)
						return
					}
				}
			})
			for i := 0; i < c.Depth; i++ {
				req := &raft.AppendEntriesRequest{RPCHeader: h, Term: 5, PrevLogEntry: uint64(i + 1), Entries: []*raft.Log{{Index: uint64(i + 2), Term: 5, Data: []byte{byte(i)}}}}
				f, err := p.AppendEntries(req, new(raft.AppendEntriesResponse))
				if err != nil {
					if fail == "" && !anyNonZero(c.Prefix) {
						fail = fmt.Sprintf("pipeline send %d failed: %v", i, err)
					}
					return
				}
				futs = append(futs, f)
			}
			vsched.WaitAlways("pipe-done", func() bool { return consumed })
			p.Close()
		})
		if pm != "" {
			return pm, rec
		}
		if !w.done && fail == "" {
			fail = "pipeline client blocked for ever"
		}
		if fail == "" && w.done {
			for i, r := range w.received {
				if a, ok := r.Cmd.(*raft.AppendEntriesRequest); !ok || a.PrevLogEntry != uint64(i+1) {
					fail = fmt.Sprintf("handler received pipelined request %d out of order", i)
				}
			}
		}
		return fail, rec
	case "pipeline-stall":
		// The reader of Consumer() is slow (it takes each future when the environment lets it), so the pipeline
		// fills up; the sender goes on using the pipeline after a send that failed. Whatever fails must fail with
		// an error; every future that completes without one carries the response to its own request.
		var fail string
		h := hdrs()[0]
		respond := func(i int, cmd interface{}) (interface{}, error) {
			a := cmd.(*raft.AppendEntriesRequest)
			return &raft.AppendEntriesResponse{RPCHeader: h, Term: a.Term, LastLog: a.PrevLogEntry + 1000, Success: true}, nil
		}
		w, rec, pm := runC16(c.Prefix, c.InFlight, time.Second, nil, false, respond, func(w *c16world) {
			w.stall = true
			p, err := w.a.AppendEntriesPipeline("idB", "B")
			if err != nil {
				fail = "cannot open a pipeline: " + err.Error()
				return
			}
			var futs []raft.AppendFuture
			consumed := 0
			sending := true
			ch := p.Consumer()
			vsched.GoNamed("pipe-consumer", 9, func() {
				for {
					w.wantPermit = true
					vsched.WaitAlways("consumer-permit", func() bool { return w.permits > 0 || (!sending && consumed >= len(futs)) })
					w.wantPermit = false
					if w.permits == 0 {
						return
					}
					w.permits--
					f := vsched.Recv[raft.AppendFuture]("pipe-consume", ch)
					i := consumed
					consumed++
					if fail != "" {
						continue
					}
					if i >= len(futs) || f != futs[i] {
						fail = fmt.Sprintf("pipeline delivered a future out of send order at position %d", i)
						continue
					}
					if err := f.Error(); err != nil {
						if !w.timerFired {
							fail = fmt.Sprintf("pipeline future %d failed although no deadline passed: %v", i, err)
						}
						continue
					}
					if f.Response().LastLog != f.Request().PrevLogEntry+1000 {
						fail = fmt.Sprintf("pipeline future for request prev=%d completed without error but carries the response produced for request prev=%d", f.Request().PrevLogEntry, f.Response().LastLog-1000)
					}
				}
			})
			for i := 0; i < c.Depth; i++ {
				req := &raft.AppendEntriesRequest{RPCHeader: h, Term: 5, PrevLogEntry: uint64(i + 1), Entries: []*raft.Log{{Index: uint64(i + 2), Term: 5, Data: []byte{byte(i)}}}}
				f, err := p.AppendEntries(req, new(raft.AppendEntriesResponse))
				if err != nil {
					if fail == "" && !w.timerFired {
						fail = fmt.Sprintf("pipeline send %d failed although no deadline passed: %v", i, err)
					}
					continue
				}
				futs = append(futs, f)
			}
			sending = false
			vsched.WaitAlways("pipe-done", func() bool { return consumed >= len(futs) })
			p.Close()
		})
		if pm != "" {
			return pm, rec
		}
		if !w.done && fail == "" {
			fail = "pipeline client blocked for ever"
		}
		if fail == "" && w.done {
			last := uint64(0)
			for i, r := range w.received {
				a, ok := r.Cmd.(*raft.AppendEntriesRequest)
				if !ok || a.PrevLogEntry <= last {
					fail = fmt.Sprintf("handler received pipelined request %d out of order", i)
					break
				}
				last = a.PrevLogEntry
			}
		}
		return fail, rec
	case "pipeline-close":
		c16SelectBranch = true
		defer func() { c16SelectBranch = false }()
		// A pipeline is closed while responses are still outstanding or unread (what raft does when it leaves
		// pipeline mode); later plain RPCs and a new pipeline from the same transport must get their own responses.
		var fail string
		h := hdrs()[0]
		respond := func(i int, cmd interface{}) (interface{}, error) {
			switch a := cmd.(type) {
			case *raft.AppendEntriesRequest:
				return &raft.AppendEntriesResponse{RPCHeader: h, Term: a.Term, LastLog: a.PrevLogEntry + 1000, Success: true}, nil
			case *raft.RequestVoteRequest:
				return &raft.RequestVoteResponse{RPCHeader: h, Term: a.Term + 500}, nil
			}
			return nil, fmt.Errorf("unexpected command")
		}
		w, rec, pm := runC16(c.Prefix, c.InFlight, time.Second, nil, false, respond, func(w *c16world) {
			p, err := w.a.AppendEntriesPipeline("idB", "B")
			if err != nil {
				fail = "cannot open a pipeline: " + err.Error()
				return
			}
			for i := 0; i < c.Depth; i++ {
				req := &raft.AppendEntriesRequest{RPCHeader: h, Term: 5, PrevLogEntry: uint64(i + 1)}
				if _, err := p.AppendEntries(req, new(raft.AppendEntriesResponse)); err != nil {
					if !w.timerFired {
						fail = fmt.Sprintf("pipeline send %d failed although no deadline passed: %v", i, err)
					}
					break
				}
			}
			w.wantClose = true
			vsched.WaitAlways("close-permit", func() bool { return w.closeNow })
			w.wantClose = false
			p.Close()
			// plain RPCs afterwards
			var rv raft.RequestVoteResponse
			if err := w.a.RequestVote("idB", "B", &raft.RequestVoteRequest{RPCHeader: h, Term: 9, Candidate: []byte("c")}, &rv); err == nil && rv.Term != 509 && fail == "" {
				fail = fmt.Sprintf("RequestVote(term 9) after closing a pipeline completed without error but carries Term=%d (the response produced for another request)", rv.Term)
			} else if err != nil && !w.timerFired && fail == "" {
				fail = "RequestVote after closing a pipeline failed although no deadline passed: " + err.Error()
			}
			var ar raft.AppendEntriesResponse
			if err := w.a.AppendEntries("idB", "B", &raft.AppendEntriesRequest{RPCHeader: h, Term: 5, PrevLogEntry: 77}, &ar); err == nil && ar.LastLog != 1077 && fail == "" {
				fail = fmt.Sprintf("AppendEntries(prev 77) after closing a pipeline completed without error but carries LastLog=%d", ar.LastLog)
			}
			// and a new pipeline
			p2, err := w.a.AppendEntriesPipeline("idB", "B")
			if err != nil {
				if !w.timerFired && fail == "" {
					fail = "cannot open a second pipeline: " + err.Error()
				}
				return
			}
			f, err := p2.AppendEntries(&raft.AppendEntriesRequest{RPCHeader: h, Term: 5, PrevLogEntry: 88}, new(raft.AppendEntriesResponse))
			if err == nil {
				g := vsched.Recv[raft.AppendFuture]("pipe2-consume", p2.Consumer())
				if g != f && fail == "" {
					fail = "second pipeline delivered a foreign future"
				} else if g.Error() == nil && g.Response().LastLog != 1088 && fail == "" {
					fail = fmt.Sprintf("second pipeline: future for prev=88 completed without error but carries LastLog=%d", g.Response().LastLog)
				}
			}
			p2.Close()
		})
		if pm != "" {
			return pm, rec
		}
		if !w.done && fail == "" {
			fail = "client blocked for ever after closing a pipeline"
		}
		return fail, rec
	}
	return "unknown case kind", nil
}

func enumC16(ctx *CheckCtx, shard, of int) *Stats {
	st := newStats()
	calls := c16calls()
	n := 0
	mine := func() bool { n++; return of <= 1 || n%of == shard }
	report := func(c c16case, d string) bool {
		v := Violation{Prop: "C16", Sig: "transport:" + c.Kind, Msg: d}
		if strings.HasPrefix(d, "internal:") || strings.HasPrefix(d, "panic in") {
			st.Internal = d
			return true
		}
		if ctx.Known != nil && ctx.Known.Matches(v) {
			st.Known[v.Prop+" "+v.Sig]++
			return false
		}
		st.Violations = append(st.Violations, FoundViolation{Violation: v, Scenario: "enum-nettransport", Case: c})
		return true
	}
	// explore all environment schedules of a case (answer timing vs timers)
	var explore func(c c16case, prefix []int) bool
	explore = func(c c16case, prefix []int) bool {
		c.Prefix = prefix
		d, rec := runC16case(c)
		st.Execs++
		if rec != nil {
			st.Transitions += len(rec.points) + 1
		}
		st.Keys[hash64(fmt.Sprint(c.Kind, c.Call, c.Request, c.Offset, c.Depth, c.InFlight, c.TimeFmt, prefix))] = true
		if d != "" {
			return report(c, d)
		}
		if rec == nil || (c.Kind != "pipeline" && c.Kind != "pipeline-stall" && c.Kind != "pipeline-close") {
			return false
		}
		for i := len(prefix); i < len(rec.points); i++ {
			for alt := 1; alt < len(rec.points[i].Labels); alt++ {
				np := append(append([]int{}, rec.choices()[:i]...), alt)
				if explore(c, np) {
					return true
				}
			}
		}
		return false
	}
	for ci := range calls {
		if !mine() {
			continue
		}
		if explore(c16case{Kind: "fidelity", Call: ci}, nil) {
			return st
		}
		// rolling upgrade: the two ends disagree on (or both use) the new msgpack time format
		for tf := 1; tf <= 3; tf++ {
			if explore(c16case{Kind: "fidelity", Call: ci, TimeFmt: tf}, nil) {
				return st
			}
		}
		if len(st.Samples) < 2 {
			b, _ := json.Marshal(map[string]any{"kind": "fidelity", "call": calls[ci].name})
			st.Samples = append(st.Samples, b)
		}
	}
	// connection cut at every byte offset of a request and of a response
	cutCalls := []int{}
	for ci, c := range calls {
		if c.name == "AppendEntries h0 l4" || c.name == "InstallSnapshot h0 size 4097" || c.name == "RequestVote h0" {
			cutCalls = append(cutCalls, ci)
		}
	}
	for _, ci := range cutCalls {
		// measure the sizes with a fault-free run
		var reqBytes, respBytes int
		respond := func(i int, cmd interface{}) (interface{}, error) { return calls[ci].resp, nil }
		w, _, _ := runC16(nil, 2, time.Second, nil, true, respond, func(w *c16world) { calls[ci].do(w.a) })
		reqBytes, respBytes = w.net.bytes[1], w.net.bytes[-1]
		step := 1
		if false && reqBytes > 600 {
			step = 7
		}
		for _, dir := range []bool{true, false} {
			total := respBytes
			if dir {
				total = reqBytes
			}
			for off := 0; off < total; off += step {
				if !mine() {
					continue
				}
				if explore(c16case{Kind: "cut", Call: ci, Request: dir, Offset: off}, nil) {
					return st
				}
			}
		}
		st.Outcomes[fmt.Sprintf("cut %s request=%d response=%d bytes", calls[ci].name, reqBytes, respBytes)]++
		if mine() {
			if explore(c16case{Kind: "timeout", Call: ci}, nil) {
				return st
			}
		}
	}
	for _, inflight := range []int{2, 3, 10} {
		for depth := 1; depth <= 4; depth++ {
			if !mine() {
				continue
			}
			if explore(c16case{Kind: "pipeline", Depth: depth, InFlight: inflight}, nil) {
				return st
			}
			st.Outcomes[fmt.Sprintf("pipeline depth=%d inflight=%d", depth, inflight)]++
		}
	}
	for _, inflight := range []int{2, 3} {
		for depth := 1; depth <= inflight-1; depth++ {
			if !mine() {
				continue
			}
			n0 := st.Execs
			if explore(c16case{Kind: "pipeline-close", Depth: depth, InFlight: inflight}, nil) {
				return st
			}
			st.Outcomes[fmt.Sprintf("pipeline-close depth=%d inflight=%d schedules=%d", depth, inflight, st.Execs-n0)]++
		}
	}
	maxStall := 3
	if ctx.Tier == "thorough" {
		maxStall = 4
	}
	for _, inflight := range []int{2, 3} {
		for depth := 2; depth <= maxStall; depth++ {
			if !mine() {
				continue
			}
			n0 := st.Execs
			if explore(c16case{Kind: "pipeline-stall", Depth: depth, InFlight: inflight}, nil) {
				return st
			}
			st.Outcomes[fmt.Sprintf("pipeline-stall depth=%d inflight=%d schedules=%d", depth, inflight, st.Execs-n0)]++
		}
	}
	return st
}

func replayC16(m map[string]any) (string, bool) {
	b, _ := json.Marshal(m)
	var c c16case
	if err := json.Unmarshal(b, &c); err != nil {
		return err.Error(), false
	}
	var d string
	var rec *Recorder
	withSchedNone(func() { d, rec = runC16case(c) })
	if os.Getenv("VERIF_C16_DEBUG") != "" && rec != nil {
		for i, p := range rec.points {
			fmt.Printf("  point %d: %v -> %d\n", i, p.Labels, rec.choices()[i])
		}
	}
	return d, d != ""
}

func withSchedNone(f func()) { f() }

func init() {
	enumReplays["enum-nettransport"] = replayC16
	register(&Check{Prop: "C16", Level: "model_checking",
		Rule:        "the real NetworkTransport (two instances) runs under the cooperative scheduler over virtual connections: (1) every message variant of every RPC type (three header forms; nil / empty / non-empty / 70 kB entries of all six log types with extensions and timestamps; boundary integers; snapshot bodies of 0, 1, 4095-4097 and 300000 bytes; a handler error) is sent in a sequence of three calls that reuses the pooled connection, with every combination of old/new msgpack time format on the two transports, and what the handler receives and the caller gets back is compared field by field; (2) for an AppendEntries, a RequestVote and an InstallSnapshot the connection is cut after EVERY byte offset of the request and of the response (quick: every 7th offset for long messages), and the next call on the same transport must be served correctly; (3) a handler that never answers (deadline) followed by another call; (4) pipelines of depth 1-4 with MaxRPCsInFlight 2, 3, 10 under every interleaving of handler answers and timers; (5) pipelines of depth 2-3 (thorough: 2-4) with MaxRPCsInFlight 2, 3 whose Consumer() reader is slow, under every interleaving of handler answers, reader steps and timers, the sender continuing after a failed send: every future that completes without error carries the response to its own request; (6) a pipeline closed while responses are outstanding or unread (every interleaving of answers, the close and timers), followed by plain RequestVote/AppendEntries calls and a second pipeline on the same transport, each of which must get its own response; distinct = distinct (case, schedule)",
		Assumptions: []string{"virtual connections: reliable ordered byte streams, unbounded buffering, deadlines in virtual time; tcp_transport.go (real sockets) is outside the model", "nil and empty slices are identified (msgpack does not distinguish them); times compared as instants"},
		Units: func(tier string) []Unit {
			return []Unit{{Name: "enum-nettransport", Enum: enumC16Wrapper, NoSched: true}}
		}})
}

// enumC16Wrapper: each case builds its own scheduler, so the enumerator must not run inside another one.
func enumC16Wrapper(ctx *CheckCtx, shard, of int) *Stats { return enumC16(ctx, shard, of) }

func anyNonZero(p []int) bool {
	for _, x := range p {
		if x != 0 {
			return true
		}
	}
	return false
}
