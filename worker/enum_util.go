package main

import (
	"fmt"

	"github.com/hashicorp/raft/zzverif/vsched"
	"github.com/hashicorp/raft/zzverif/vtime"
)

// seqStrat runs a single thread to completion (sequential enumerators still go
// through the instrumented sync/channel operations, which need a scheduler).
type seqStrat struct{}

func (seqStrat) Coarse() bool { return true }
func (seqStrat) Choose(s *vsched.Sched, opts []vsched.Transition, nThread, cur int) int {
	if nThread == 0 {
		return -1
	}
	if cur >= 0 {
		return cur
	}
	return 0
}

// withSched runs f as the main thread of a fresh trivial scheduler.
func withSched(f func()) (panicMsg string) {
	s := vsched.New(seqStrat{})
	s.MaxStep = 1 << 62
	vtime.Reset()
	done := false
	s.OnPanic = func(t *vsched.Thread, v any, stack string) {
		panicMsg = fmt.Sprintf("%v\n%s", v, stack)
	}
	s.Run(func() {
		f()
		done = true
	})
	s.Kill()
	if !done && panicMsg == "" {
		panicMsg = "enumerator blocked (deadlock inside sequential code)"
	}
	return panicMsg
}
