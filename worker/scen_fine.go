package main

import (
	"bytes"
	"fmt"
	"strings"

	"github.com/hashicorp/raft"
	"github.com/hashicorp/raft/zzverif/vsched"
)

// ---------------------------------------------------------------------------
// C17: every public call racing Shutdown (fine-grained: every select/lock is a branching point).

func (w *World) genericCall(n *Node, kind string) *Call {
	switch kind {
	case "apply":
		return w.apply(n, 0)
	case "barrier":
		return w.barrier(n)
	case "verify":
		return w.verify(n)
	case "addvoter":
		return w.addVoter(n, 1, 0)
	case "remove":
		return w.remove(n, 1, 0)
	case "snapshot":
		return w.snapshot(n)
	case "transfer":
		return w.transfer(n, -1)
	case "restore":
		return w.client(n, "restore", "", func(c *Call, r *raft.Raft) {
			data := []byte("USERSNAP")
			c.Err = r.Restore(&raft.SnapshotMeta{Version: 1, Index: 2, Term: 1, Size: int64(len(data))}, bytes.NewReader(data), 0)
		})
	case "getconfig":
		return w.client(n, "getconfig", "", func(c *Call, r *raft.Raft) { c.Err = r.GetConfiguration().Error() })
	case "bootstrap":
		return w.client(n, "bootstrap", "", func(c *Call, r *raft.Raft) {
			c.Err = r.BootstrapCluster(raft.Configuration{Servers: []raft.Server{{ID: "n0", Address: "n0"}}}).Error()
		})
	}
	panic("unknown call kind " + kind)
}

var shutdownKinds = []string{"apply", "barrier", "verify", "addvoter", "remove", "snapshot", "transfer", "restore", "getconfig", "bootstrap"}

func init() {
	for _, kind := range shutdownKinds {
		for _, batch := range []bool{false, true} {
			kind, batch := kind, batch
			name := "shutdown-" + kind
			if batch {
				name += "-batch"
			}
			regScenario(name, func() *Scenario {
				return &Scenario{Nodes: voters(2), Fine: true, Devs: 0, Horizon: 400,
					Goal: func(w *World) bool { return w.vals["raced"] == 1 && w.callsDone() },
					Conf: func(i int, c *raft.Config) { c.BatchApplyCh = batch; c.MaxAppendEntries = 2 },
					Steps: []Step{
						stepDo("race-"+kind+"-with-shutdown", whenSettled, func(w *World) {
							l := w.leader()
							w.vals["raced"] = 1
							w.setFine(true)
							w.genericCall(l, kind)
							w.client(l, "shutdown", "", func(c *Call, r *raft.Raft) {
								c.Err = r.Shutdown().Error()
								// a new call after the shutdown completed
								nn := w.nodes[c.Node]
								saved := nn.r
								nn.r = r
								pc := w.genericCall(nn, kind)
								pc.Kind = "post:" + pc.Kind
								nn.r = saved
							})
						}),
					}}
			})
		}
	}
	// a call racing a step-down caused by a partition (coarse + network deviations)
	regScenario("stepdown-calls", func() *Scenario {
		return &Scenario{Nodes: voters(3), Devs: DevAllNet | DevTimer | DevStepEarly, Horizon: 700, Liveness: true, Goal: func(w *World) bool { return w.scriptDone() && w.callsDone() && w.converged() },
			Steps: []Step{
				stepApplyLeader("apply1"),
				stepDo("isolate-leader+calls", whenSettled, func(w *World) {
					l := w.leader()
					w.vals["old"] = l.id
					w.isolate(l.id, true)
					w.apply(l, 0)
					w.verify(l)
					w.barrier(l)
				}),
				stepDo("heal", func(w *World) bool {
					l := w.stableLeader()
					return l != nil && l.id != w.vals["old"]
				}, func(w *World) { w.isolate(w.vals["old"], false) }),
				stepApplyLeader("apply-final"),
			}}
	})
}

// ---------------------------------------------------------------------------
// C18: leadership notifications with explorer-scheduled consumers.

type notifyConsumer struct {
	node, inc int
	permits   int
	reads     []bool
	waiting   bool // parked in the receive with nothing to read
}

func (w *World) startConsumer(n *Node) {
	nc := &notifyConsumer{node: n.id, inc: n.inc}
	w.consumers = append(w.consumers, nc)
	ch := n.notifyCh
	vsched.GoNamed(fmt.Sprintf("consumer-n%d.%d", n.id, n.inc), 50+n.id, func() {
		for {
			vsched.WaitAlways("consumer-permit", func() bool { return nc.permits > len(nc.reads) })
			nc.waiting = true
			v := vsched.Recv[bool]("consumer-recv", ch)
			nc.waiting = false
			nc.reads = append(nc.reads, v)
			w.mon.OnNotifyRead(nc, v)
		}
	})
}

func init() {
	mkNotify := func(devs Dev, back bool) func() *Scenario {
		return func() *Scenario {
			return &Scenario{Nodes: voters(3), NotifyCh: true, Devs: devs, Horizon: 500, AutoRestart: true,
				Goal: func(w *World) bool { return w.scriptDone() && w.callsDone() && w.converged() && w.consumersIdle() },
				Steps: []Step{
					stepApplyLeader("apply1"),
					stepDo("isolate-leader", whenSettled, func(w *World) { l := w.leader(); w.vals["old"] = l.id; w.isolate(l.id, true) }),
					stepDo("heal", func(w *World) bool {
						l := w.stableLeader()
						return l != nil && l.id != w.vals["old"]
					}, func(w *World) { w.isolate(w.vals["old"], false) }),
					stepDo("transfer", whenSettled, func(w *World) {
						if back { // hand leadership back to the server that lost it: it gains it a second time
							w.transfer(w.leader(), w.vals["old"])
						} else {
							w.transfer(w.leader(), -1)
						}
					}),
					stepApplyLeader("apply2"),
				}}
		}
	}
	regScenario("notify3", mkNotify(DevAllNet|DevTimer|DevCrash|DevStepEarly|DevRestart, false))
	regScenario("notify3-back", mkNotify(DevAllNet|DevTimer|DevCrash|DevStepEarly|DevRestart, true))
}

func (w *World) consumersIdle() bool {
	for _, nc := range w.consumers {
		n := w.nodes[nc.node]
		if n.up && n.inc == nc.inc && !nc.waiting {
			return false
		}
	}
	return true
}

func (m *Monitors) OnNotifyRead(nc *notifyConsumer, v bool) {
	k := len(nc.reads)
	want := k%2 == 1 // 1st read true, 2nd false, ...
	if v != want {
		m.fail("C18", "notify-not-alternating", "n%d.%d NotifyCh delivered %v as message %d (sequence %v)", nc.node, nc.inc, v, k, nc.reads)
	}
}

// notifyChecks runs at quiescent points.
func (m *Monitors) notifyChecks() {
	w := m.w
	for _, nc := range w.consumers {
		n := w.nodes[nc.node]
		if !n.up || n.inc != nc.inc || n.r == nil {
			continue
		}
		if nc.waiting && nc.permits > len(nc.reads) {
			// the consumer is parked in the receive and nothing is offered: everything sent so far was consumed
			isLeader := n.r.State() == raft.Leader
			last := false
			if len(nc.reads) > 0 {
				last = nc.reads[len(nc.reads)-1]
			}
			// the main thread may still be on its way to the notify send (it is parked on it if it was reached);
			// "at rest" means it is parked in its main select loop
			if !m.mainLoopParked(n) {
				continue
			}
			if last != isLeader {
				m.fail("C18", "notify-last-value-wrong", "n%d.%d is at rest, leader=%v, but the last NotifyCh value was %v (sequence %v)", nc.node, nc.inc, isLeader, last, nc.reads)
			}
			tr := m.transitions[[2]int{n.id, n.inc}]
			if len(nc.reads) != tr {
				m.fail("C18", "notify-count", "n%d.%d had %d leadership gains/losses but NotifyCh delivered %d messages (%v)", nc.node, nc.inc, tr, len(nc.reads), nc.reads)
			}
		}
	}
	// LeaderCh, which nobody reads here (the slowest possible consumer), always holds the most recent transition
	for _, n := range w.nodes {
		if !n.up || n.r == nil || !n.booted || !m.mainLoopParked(n) {
			continue
		}
		if m.transitions[[2]int{n.id, n.inc}] == 0 {
			continue
		}
		isLeader := n.r.State() == raft.Leader
		if v, ok := n.r.VerifLeaderChPeek(); !ok || v != isLeader {
			m.fail("C18", "leaderch-not-latest", "n%d.%d is at rest, leader=%v, after %d transitions; LeaderCh (never read) holds value=%v present=%v", n.id, n.inc, isLeader, m.transitions[[2]int{n.id, n.inc}], v, ok)
		}
	}
	// a follower names only a server that really was leader of the follower's current term
	for _, n := range w.nodes {
		if !n.up || n.r == nil || n.r.State() != raft.Follower {
			continue
		}
		_, id := n.r.LeaderWithID()
		if id == "" {
			continue
		}
		t := n.r.CurrentTerm()
		ld := w.nodeByAddr(raft.ServerAddress(id))
		if x, ok := m.leaders[t]; !ok || x != ld {
			if s, ok2 := m.senders[t]; !ok2 || s != ld {
				was := "nobody (so far)"
				if ok {
					was = nodeName(x)
				}
				m.fail("C18", "follower-names-non-leader", "follower n%d (term %d) names %s as leader, but the leader of term %d was %s", n.id, t, id, t, was)
			}
		}
	}
}

func (m *Monitors) mainLoopParked(n *Node) bool {
	// ... of the loop that belongs to its state: the heartbeat fast path changes the state on a transport thread, and
	// the main loop only leaves leaderLoop (and announces the loss) at its next wake-up - until then it is in transit
	want := map[raft.RaftState]string{raft.Follower: "@runFollower#1", raft.Candidate: "@runCandidate#1", raft.Leader: "@leaderLoop#8"}[n.r.State()]
	if want == "" {
		return false
	}
	for _, s := range m.w.sched.Live(func(g int) bool { return g == n.group() }) {
		if strings.Contains(s, want) {
			return true
		}
	}
	return false
}

// ---------------------------------------------------------------------------
// C09: VerifyLeader

func (w *World) heldCount() int {
	n := 0
	for _, m := range w.live {
		if m.held {
			n++
		}
	}
	return n
}

func (w *World) releaseHeld() {
	w.holdResp = nil
	for _, m := range w.live {
		if m.held {
			m.held = false
			m.bypass = true
		}
	}
}

func init() {
	// two voters + one non-voter: the leader is cut off from the other voter only
	regScenario("verify-nonvoter", func() *Scenario {
		ns := append(voters(2), NodeSpec{Suffrage: raft.Nonvoter, InBootstrap: true, StartUp: true})
		return &Scenario{Nodes: ns, Devs: DevAllNet | DevStepEarly, Horizon: 400,
			Goal: func(w *World) bool { return w.scriptDone() && w.callsDone() },
			Steps: []Step{
				stepApplyLeader("apply1"),
				stepDo("cut-leader-from-other-voter", whenSettled, func(w *World) {
					l := w.leader()
					for _, o := range w.nodes {
						if o != l && o.spec.Suffrage == raft.Voter {
							w.blocked[[2]int{l.id, o.id}] = true
							w.blocked[[2]int{o.id, l.id}] = true
						}
					}
					w.vals["L"] = l.id
				}),
				stepDo("verify", func(w *World) bool { return w.netIdle() }, func(w *World) { w.verify(w.nodes[w.vals["L"]]) }),
			}}
	})
	// plain three voters, network deviations around the call
	regScenario("verify3", func() *Scenario {
		return &Scenario{Nodes: voters(3), Devs: DevAllNet | DevStepEarly | DevTimer, Horizon: 400,
			Goal: func(w *World) bool { return w.scriptDone() && w.callsDone() },
			Steps: []Step{
				stepApplyLeader("apply1"),
				stepDo("verify", whenSettled, func(w *World) { w.verify(w.leader()) }),
				stepDo("isolate+verify", func(w *World) bool { return whenSettled(w) }, func(w *World) {
					l := w.leader()
					w.isolate(l.id, true)
					w.verify(l)
				}),
			}}
	})
	// heartbeat acknowledgements produced before the call but delivered after it, while a new leader exists
	regScenario("verify-stale-ack", func() *Scenario {
		return &Scenario{Nodes: voters(3), Devs: DevTimer | DevStepEarly, Horizon: 600,
			Goal: func(w *World) bool { return w.scriptDone() && w.callsDone() },
			Steps: []Step{
				stepApplyLeader("apply1"),
				stepDo("withhold-heartbeat-acks", whenSettled, func(w *World) {
					l := w.leader()
					w.vals["L"] = l.id
					seen := map[int]bool{}
					w.holdResp = func(m *Msg) bool {
						if m.Kind == "HB" && m.From == l.id && !seen[m.To] {
							seen[m.To] = true
							return true
						}
						return false
					}
				}),
				stepDo("isolate-old-leader", func(w *World) bool { return w.heldCount() >= 2 }, func(w *World) { w.isolate(w.vals["L"], true) }),
				stepDo("verify-on-old-leader+late-acks", func(w *World) bool {
					l := w.stableLeader()
					old := w.nodes[w.vals["L"]]
					return l != nil && l.id != old.id && old.r.State() == raft.Leader
				}, func(w *World) {
					old := w.nodes[w.vals["L"]]
					w.vals["superseded"] = 1
					w.verify(old)
					w.releaseHeld()
				}),
			}}
	})
}

// verifyReturned: C09 oracle on a successful VerifyLeader.
func (m *Monitors) verifyReturned(c *Call) {
	w := m.w
	n := w.nodes[c.Node]
	if c.Err != nil || n.r == nil {
		return
	}
	term, _ := c.Extra.(uint64)
	d := n.r.VerifDump()
	voters, acks := 0, 1
	var who []string
	count := func(cfg raft.Configuration) {
		voters, acks, who = 0, 1, nil
		callerVoter := false
		for _, s := range cfg.Servers {
			if s.Suffrage != raft.Voter {
				continue
			}
			voters++
			if s.ID == n.sid {
				callerVoter = true
				continue
			}
			v := w.nodeByAddr(s.Address)
			for _, a := range m.acks {
				if a.from == c.Node && a.to == v && a.term == term && a.delivAt >= c.InvokeEv {
					acks++
					who = append(who, string(s.ID))
					break
				}
			}
		}
		if !callerVoter {
			acks--
		}
	}
	count(d.Latest)
	if acks*2 <= voters {
		// the configuration changed while the call was running: a majority of the one in force when it began also counts
		if cfg0, ok := m.verifyCfg[c.ID]; ok && fmt.Sprint(cfg0.Servers) != fmt.Sprint(d.Latest.Servers) {
			count(cfg0)
			if acks*2 <= voters {
				count(d.Latest)
			}
		}
	}
	if acks*2 <= voters {
		sig := "verify-without-fresh-voter-majority"
		// classify: were there acknowledgements of non-voters, or acknowledgements produced before the call?
		nonvoter, stale := false, false
		for _, a := range m.acks {
			if a.from != c.Node || a.term != term || a.repliedAt < c.InvokeEv {
				continue
			}
			isVoter := false
			for _, s := range append(append([]raft.Server{}, d.Latest.Servers...), m.verifyCfg[c.ID].Servers...) {
				// (a voter of the configuration at the return of the call or of the one in force when it was issued)
				if w.nodeByAddr(s.Address) == a.to && s.Suffrage == raft.Voter {
					isVoter = true
				}
			}
			if !isVoter && a.delivAt >= c.InvokeEv {
				nonvoter = true
			}
			if isVoter && a.delivAt < c.InvokeEv {
				stale = true
			}
		}
		if nonvoter {
			sig += ":non-voter-acknowledgement-counted"
		} else if stale {
			sig += ":acknowledgement-older-than-the-call-counted"
		}
		m.fail("C09", sig, "VerifyLeader on n%d (term %d) succeeded, but after the call only %d of %d voters (caller included; %v) acknowledged it as leader", c.Node, term, acks, voters, who)
	}
	// corollary: never on a server that had been superseded when the call began
	for t, ld := range m.leaderAt {
		if t > term && ld.ev <= c.InvokeEv && ld.node != c.Node {
			m.fail("C09", "verify-on-superseded-leader", "VerifyLeader on n%d (term %d) succeeded although n%d had become leader of term %d before the call", c.Node, term, ld.node, t)
			break
		}
	}
}

type ackRec struct {
	from, to           int
	term               uint64
	delivAt, repliedAt int
}

type leaderRec struct{ node, ev int }

func init() {
	// C08 fine mode: concurrent Apply/Apply/Barrier on a single-voter leader (group commit, FSM batches)
	mk := func(fsm FSMKind, batchCh bool) func() *Scenario {
		return func() *Scenario {
			return &Scenario{Nodes: voters(1), FSM: fsm, Fine: true, Devs: 0, Horizon: 300,
				Conf: func(i int, c *raft.Config) { c.MaxAppendEntries = 2; c.BatchApplyCh = batchCh },
				Goal: func(w *World) bool { return w.vals["go"] == 1 && w.callsDone() },
				Steps: []Step{
					stepApplyLeader("apply0"),
					stepDo("three-concurrent-calls", whenSettled, func(w *World) {
						l := w.leader()
						w.vals["go"] = 1
						w.setFine(true)
						w.apply(l, 0)
						w.apply(l, 0)
						w.barrier(l)
					}),
				}}
		}
	}
	regScenario("apply-fine1", mk(FSMPlain, false))
	regScenario("apply-fine1-batching", mk(FSMBatching, true))
	// the same with storage faults: a leader that steps down on a failed StoreLogs while a commit notification of
	// its own is still unserviced must fail the calls in flight (or complete them through the FSM), never
	// acknowledge them from the clean-up path
	withStore := func(f func() *Scenario) func() *Scenario {
		return func() *Scenario {
			sc := f()
			sc.Devs = DevStore
			sc.Goal = func(w *World) bool {
				if w.vals["go"] != 1 || !w.callsDone() {
					return false
				}
				l := w.leader() // let a committed entry reach the FSM before the run is judged
				return l == nil || l.r.AppliedIndex() == l.r.CommitIndex()
			}
			return sc
		}
	}
	regScenario("apply-fine1-storeerr", withStore(mk(FSMPlain, false)))
	regScenario("apply-fine1-batching-storeerr", withStore(mk(FSMBatching, true)))
}

func init() {
	// VerifyLeader while a voter addition is in flight: the leader acts on {L,F1,F2,N} (uncommitted) while the
	// committed configuration is {L,F1,F2}; it reaches N only. L+N are two of four voters, not a majority.
	regScenario("verify-addvoter", func() *Scenario {
		ns := append(voters(3), NodeSpec{Suffrage: raft.Nonvoter, StartUp: true})
		return &Scenario{Nodes: ns, Devs: DevAllNet | DevStepEarly | DevTimer, Horizon: 700,
			Goal: func(w *World) bool { return w.scriptDone() && w.vals["vc"] > 0 && w.calls[w.vals["vc"]].Done },
			Steps: []Step{
				stepApplyLeader("apply1"),
				stepDo("add-nonvoter", whenSettled, func(w *World) { w.addNonvoter(w.leader(), 3, 0) }),
				stepDo("cut-followers+promote", whenSettled, func(w *World) {
					l := w.leader()
					w.vals["L"] = l.id
					for _, o := range w.nodes[:3] {
						if o.id != l.id {
							w.cut(l.id, o.id, true)
							w.cut(3, o.id, true)
						}
					}
					w.addVoter(l, 3, 0)
				}),
				stepDo("verify", func(w *World) bool {
					l := w.nodes[w.vals["L"]]
					if l.r == nil || l.r.State() != raft.Leader || !w.netIdle() {
						return false
					}
					for _, sv := range l.r.VerifDump().Latest.Servers {
						if sv.ID == w.nodes[3].sid && sv.Suffrage == raft.Voter {
							return w.nodes[3].r != nil && w.nodes[3].r.LastIndex() == l.r.LastIndex()
						}
					}
					return false
				}, func(w *World) { w.vals["vc"] = w.verify(w.nodes[w.vals["L"]]).ID }),
			}}
	})
}

func init() {
	// a voter is demoted during this leadership; the leader then loses the other voter and keeps only the demoted
	// server: its acknowledgement must no longer confirm leadership
	regScenario("verify-demoted", func() *Scenario {
		return &Scenario{Nodes: voters(3), Devs: DevAllNet | DevStepEarly | DevTimer, Horizon: 700,
			Goal: func(w *World) bool { return w.scriptDone() && w.vals["vc"] > 0 && w.calls[w.vals["vc"]].Done },
			Steps: []Step{
				stepApplyLeader("apply1"),
				stepDo("demote-a-follower", whenSettled, func(w *World) {
					l := w.leader()
					w.vals["L"] = l.id
					f := w.aFollower()
					w.vals["D"] = f.id
					w.demote(l, f.id, 0)
				}),
				stepDo("cut-the-other-voter+verify", func(w *World) bool {
					return whenSettled(w) && w.leader().id == w.vals["L"]
				}, func(w *World) {
					l := w.leader()
					for _, o := range w.nodes {
						if o.id != l.id && o.id != w.vals["D"] {
							w.isolate(o.id, true)
						}
					}
					w.vals["vc"] = w.verify(l).ID
				}),
			}}
	})
}

func init() {
	// five voters: the leader keeps one follower, the other three are cut off; one reachable voter is not a majority
	regScenario("verify5-pair", func() *Scenario {
		return &Scenario{Nodes: voters(5), Devs: DevAllNet | DevStepEarly | DevTimer, Horizon: 600,
			Goal: func(w *World) bool { return w.scriptDone() && w.callsDone() },
			Steps: []Step{
				stepApplyLeader("apply1"),
				stepDo("leader-keeps-one-follower+verify", whenSettled, func(w *World) {
					l := w.leader()
					f := w.aFollower()
					for _, o := range w.nodes {
						if o.id != l.id && o.id != f.id {
							w.cut(l.id, o.id, true)
							w.cut(f.id, o.id, true)
						}
					}
					w.verify(l)
				}),
			}}
	})
}
